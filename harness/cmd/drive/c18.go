package main

import (
	"bytes"
	"fmt"
	"io"
	"os"
	"path/filepath"
	"strings"

	"github.com/protobom/protobom/pkg/formats"
	"github.com/protobom/protobom/pkg/native"
	"github.com/protobom/protobom/pkg/native/nativefakes"
	"github.com/protobom/protobom/pkg/reader"
	"github.com/protobom/protobom/pkg/sbom"
	"github.com/protobom/protobom/pkg/storage"
	"github.com/protobom/protobom/pkg/writer"

	"verifharness/coqfmt"
	"verifharness/gen"
)

func init() { runners["C18"] = runC18 }

type nopCloser struct{ io.Writer }

func (nopCloser) Close() error { return nil }

type optSpec struct {
	Key, Val string // Val "" with Key "" = a nil-argument option (no effect)
}

func coqOpt(o optSpec) string {
	if o.Key == "" {
		return "ONop"
	}
	return fmt.Sprintf("(OSet %s %s)", coqfmt.Str(o.Key), coqfmt.Str(o.Val))
}

func coqConf(kv [][2]string) string {
	return coqfmt.List(kv, func(p [2]string) string { return "(" + coqfmt.Str(p[0]) + ", " + coqfmt.Str(p[1]) + ")" })
}

func tok(v any) string {
	if v == nil {
		return ""
	}
	return fmt.Sprint(v)
}

const (
	fmtA = formats.Format("text/verif-a")
	fmtB = formats.Format("text/verif-b")
)

// recBackend records the options the storage backend is handed.
type recBackend struct {
	storeOpts    []*storage.StoreOptions
	retrieveOpts []*storage.RetrieveOptions
	failNext     bool           // the next call reports an error
	lastDoc      *sbom.Document // what the last successful Retrieve returned
}

var errBackend = fmt.Errorf("backend failure")

func (b *recBackend) Store(_ *sbom.Document, o *storage.StoreOptions) error {
	b.storeOpts = append(b.storeOpts, o)
	if b.failNext {
		b.failNext = false
		return errBackend
	}
	return nil
}

func (b *recBackend) Retrieve(_ string, o *storage.RetrieveOptions) (*sbom.Document, error) {
	b.retrieveOpts = append(b.retrieveOpts, o)
	if b.failNext {
		b.failNext = false
		return nil, errBackend
	}
	b.lastDoc = sbom.NewDocument()
	return b.lastDoc, nil
}

// ---- writer ---------------------------------------------------------------------------------
var wKeys = []string{"format", "indent", "noclobber", "store-backend", "fo:" + "*nativefakes.FakeSerializer", "fo:other"}
var wFallback = [][2]string{{"format", "0"}, {"indent", "1"}, {"noclobber", "1"}, {"store-backend", "1"}}

func wObserve(w *writer.Writer) []string {
	ind, ncl, be := "", "", ""
	if w.Options.RenderOptions != nil {
		ind = fmt.Sprint(w.Options.RenderOptions.Indent)
	}
	if w.Options.StoreOptions != nil {
		ncl = fmt.Sprint(w.Options.StoreOptions.NoClobber)
		be = tok(w.Options.StoreOptions.BackendOptions)
	}
	return []string{string(w.Options.Format), ind, ncl, be,
		tok(w.Options.GetFormatOptions("*nativefakes.FakeSerializer")), tok(w.Options.GetFormatOptions("other"))}
}

func (r *Report) writerHistory(g *gen.G, cf *CasesFile, dir string) {
	fa, fb := &nativefakes.FakeSerializer{}, &nativefakes.FakeSerializer{}
	writer.RegisterSerializer(fmtA, fa)
	writer.RegisterSerializer(fmtB, fb)
	defer writer.UnregisterSerializer(fmtA)
	defer writer.UnregisterSerializer(fmtB)
	defaults := [][2]string{{"format", ""}, {"indent", "4"}, {"noclobber", "false"}, {"store-backend", ""}}
	var insts []*writer.Writer
	var percall []wPerCall
	wrec := &recBackend{}
	var hist, obs, calls []string
	var desc []any
	steps := 2 + g.Int(7)
	for s := 0; s < steps; s++ {
		if len(insts) == 0 || g.Chance(0.55) {
			var specs []optSpec
			var opts []writer.WriterOption
			for k := g.Int(4); k > 0; k-- {
				switch g.Int(7) {
				case 0:
					f := gen.Pick(g, []formats.Format{fmtA, fmtB})
					opts = append(opts, writer.WithFormat(f))
					specs = append(specs, optSpec{"format", string(f)})
				case 1:
					n := 1 + g.Int(8)
					opts = append(opts, writer.WithRenderOptions(&native.RenderOptions{Indent: n}))
					specs = append(specs, optSpec{"indent", fmt.Sprint(n)})
				case 2:
					opts = append(opts, writer.WithRenderOptions(nil))
					specs = append(specs, optSpec{})
				case 3:
					b := g.Chance(0.7)
					t := fmt.Sprintf("be%d", g.Int(100))
					opts = append(opts, writer.WithStoreOptions(&storage.StoreOptions{NoClobber: b, BackendOptions: t}))
					specs = append(specs, optSpec{"noclobber", fmt.Sprint(b)}, optSpec{"store-backend", t})
				case 4:
					t := fmt.Sprintf("fo%d", g.Int(100))
					opts = append(opts, writer.WithFormatOptions("*nativefakes.FakeSerializer", t))
					specs = append(specs, optSpec{"fo:*nativefakes.FakeSerializer", t})
				case 5:
					t := fmt.Sprintf("fx%d", g.Int(100))
					opts = append(opts, writer.WithFormatOptions("other", t))
					specs = append(specs, optSpec{"fo:other", t})
				default:
					opts = append(opts, writer.WithSerializeOptions(nil), writer.WithStoreOptions(nil))
					specs = append(specs, optSpec{}, optSpec{})
				}
			}
			var mySO *native.SerializeOptions
			if g.Chance(0.3) {
				mySO = &native.SerializeOptions{}
				opts = append(opts, writer.WithSerializeOptions(mySO))
			}
			opts = append(opts, writer.WithStoreRetriever(wrec), writer.WithStoreRetriever(nil))
			nw := writer.New(opts...)
			if nw.Storage != storage.StoreRetriever(wrec) {
				r.Fail(Failure{What: "WithStoreRetriever did not install the given backend (or a nil argument replaced it)", Input: map[string]any{"history": desc}})
			}
			if (mySO != nil && nw.Options.SerializeOptions != mySO) || nw.Options.SerializeOptions == nil || nw.Options.RenderOptions == nil || nw.Options.StoreOptions == nil {
				r.Fail(Failure{What: "a writer's options after construction are not the given value (or a nil argument replaced a default)", Input: map[string]any{"history": desc, "with": specs}})
			}
			nw.Storage = wrec
			// the nested option values of an instance are its own: no other live instance, and no instance
			// constructed without options, holds the same RenderOptions / StoreOptions value
			// (every option value given in these histories is given to one constructor only)
			fresh := writer.New()
			for j, other := range append(append([]*writer.Writer{}, insts...), fresh) {
				// (SerializeOptions has no fields: pointers to values of size zero may coincide and share nothing)
				if other.Options == nw.Options || other.Options.RenderOptions == nw.Options.RenderOptions || other.Options.StoreOptions == nw.Options.StoreOptions {
					r.Fail(Failure{What: "two writers share an options value (writing through one instance's options changes the other's)", Detail: fmt.Sprintf("the new instance and instance %d (the last one is a writer constructed without options)", j), Input: map[string]any{"history": desc, "with": specs}})
					break
				}
			}
			insts = append(insts, nw)
			hist = append(hist, "(HNew "+coqfmt.List(specs, coqOpt)+")")
			desc = append(desc, map[string]any{"new_writer_with": specs})
			r.Count("writer:new")
		} else {
			i := g.Int(len(insts))
			w := insts[i]
			doc := sbom.NewDocument()
			if g.Chance(0.3) {
				// Store / StoreWithOptions against the recording backend
				var pc [][2]string
				n0 := len(wrec.storeOpts)
				wrec.failNext = g.Chance(0.3)
				wantErr := wrec.failNext
				var serr error
				if g.Chance(0.5) {
					serr = w.Store(doc) // the plain entry point hands the library defaults to the backend
				} else {
					b := g.Chance(0.5)
					t := fmt.Sprintf("ps%d", g.Int(100))
					serr = w.StoreWithOptions(doc, &writer.Options{StoreOptions: &storage.StoreOptions{NoClobber: b, BackendOptions: t}})
					pc = append(pc, [2]string{"noclobber", fmt.Sprint(b)}, [2]string{"store-backend", t})
				}
				if (serr != nil) != wantErr {
					r.Fail(Failure{What: "a store through a writer did not report what the storage backend reported", Detail: fmt.Sprintf("backend failed: %v, writer returned: %v", wantErr, serr), Input: map[string]any{"history": desc}})
				}
				eff := []string{"-", "-", "", "", "-", "-"}
				if len(wrec.storeOpts) > n0 {
					if o := wrec.storeOpts[len(wrec.storeOpts)-1]; o != nil {
						eff[2], eff[3] = fmt.Sprint(o.NoClobber), tok(o.BackendOptions)
					}
				}
				hist = append(hist, fmt.Sprintf("(HCall %d%%nat (Some %s))", i, coqConf(pc)))
				calls = append(calls, coqfmt.Strs(eff))
				desc = append(desc, map[string]any{"store_on": i, "percall": pc, "effective": eff})
				wantNC, wantBE := "false", ""
				if len(pc) > 0 {
					wantNC, wantBE = pc[0][1], pc[1][1]
				}
				ownW := wObserve(w)
				if (eff[2] != wantNC || eff[3] != wantBE) && !(len(pc) == 0 && eff[2] == ownW[2] && eff[3] == ownW[3]) {
					r.Fail(Failure{What: "a store handed the storage backend options that are neither the call's own nor the library defaults", Detail: fmt.Sprintf("no-clobber %s backend options %q, expected %s %q", eff[2], eff[3], wantNC, wantBE), Input: map[string]any{"history": desc}})
				}
				r.Count("writer:store")
			} else if g.Chance(0.5) && w.Options.Format != "" {
				nA, nB := fa.SerializeCallCount(), fb.SerializeCallCount()
				var err error
				if g.Chance(0.3) {
					err = w.WriteFile(doc, filepath.Join(dir, "c18-out.tmp")) // the file entry point: same options as the stream one
					r.Count("writer:call-plain-file")
				} else {
					err = w.WriteStream(doc, nopCloser{&bytes.Buffer{}})
				}
				eff := wEffective(fa, fb, nA, nB, err)
				hist = append(hist, fmt.Sprintf("(HCall %d%%nat None)", i))
				calls = append(calls, coqfmt.Strs(eff))
				desc = append(desc, map[string]any{"write_stream_on": i, "effective": eff})
				r.Count("writer:call-plain")
			} else {
				o := &writer.Options{}
				var pc [][2]string
				reused := false
				if len(percall) > 0 && g.Chance(0.4) && (percall[len(percall)-1].o.Format != "" || w.Options.Format != "") {
					// the same options value handed to a second call, possibly on another instance
					k := g.Int(len(percall))
					if percall[k].o.Format != "" || w.Options.Format != "" {
						o, pc = percall[k].o, percall[k].pc
						reused = true
						r.Count("writer:percall-options-reused")
					}
				}
				if !reused {
					if g.Chance(0.6) || w.Options.Format == "" {
						o.Format = gen.Pick(g, []formats.Format{fmtA, fmtB})
						pc = append(pc, [2]string{"format", string(o.Format)})
					}
					if g.Chance(0.5) {
						n := 1 + g.Int(8)
						o.RenderOptions = &native.RenderOptions{Indent: n}
						pc = append(pc, [2]string{"indent", fmt.Sprint(n)})
					}
					if g.Chance(0.4) {
						t := fmt.Sprintf("pc%d", g.Int(100))
						o.SetFormatOptions("*nativefakes.FakeSerializer", t)
						pc = append(pc, [2]string{"fo:*nativefakes.FakeSerializer", t})
					}
					percall = append(percall, wPerCall{o, pc})
				}
				snap := wOptSnapshot(o)
				nA, nB := fa.SerializeCallCount(), fb.SerializeCallCount()
				var err error
				if g.Chance(0.3) {
					err = w.WriteFileWithOptions(doc, filepath.Join(dir, "c18-out.tmp"), o)
					r.Count("writer:call-with-options-file")
				} else {
					err = w.WriteStreamWithOptions(doc, nopCloser{&bytes.Buffer{}}, o)
				}
				r.OracleEvals++
				if after := wOptSnapshot(o); after != snap {
					r.Fail(Failure{What: "a write changed the options value it was given for that call", Detail: fmt.Sprintf("before %s, after %s", snap, after), Input: map[string]any{"history": desc, "percall": pc, "on": i}})
				}
				eff := wEffective(fa, fb, nA, nB, err)
				wantFmt := string(o.Format)
				if wantFmt == "" {
					wantFmt = string(w.Options.Format)
				}
				if want := tok(o.GetFormatOptions(&nativefakes.FakeSerializer{})); eff[0] != wantFmt || eff[4] != want {
					r.Fail(Failure{What: "a write given per-call options did not use the call's format (or, without one, the writer's) and the call's own format options", Detail: fmt.Sprintf("format %q, driver received %q; expected %q and %q", eff[0], eff[4], wantFmt, want), Input: map[string]any{"history": desc, "percall": pc, "on": i}})
				}
				hist = append(hist, fmt.Sprintf("(HCall %d%%nat (Some %s))", i, coqConf(pc)))
				calls = append(calls, coqfmt.Strs(eff))
				desc = append(desc, map[string]any{"write_stream_with_options_on": i, "percall": pc, "effective": eff})
				r.Count("writer:call-with-options")
			}
		}
		var all []string
		for _, w := range insts {
			all = append(all, coqfmt.Strs(wObserve(w)))
		}
		obs = append(obs, "["+strings.Join(all, "; ")+"]")
		r.OracleEvals++
		if fresh := wObserve(writer.New()); strings.Join(fresh, "|") != "|4|false|||" {
			r.Fail(Failure{What: "a writer constructed without options does not have the documented defaults (the library defaults were changed by the history so far)", Detail: strings.Join(fresh, "|"), Input: map[string]any{"history": desc}})
		}
	}
	if driverGotNilOptions > 0 {
		r.Fail(Failure{What: "a serializer was handed nil serialize or render options (neither the call's, nor the writer's, nor the library defaults)", Detail: fmt.Sprint(driverGotNilOptions, " calls"), Input: map[string]any{"history": desc}})
		driverGotNilOptions = 0
	}
	// direct oracle: every instance's configuration equals defaults + its own options; a fresh writer has the defaults
	r.OracleEvals++
	fresh := wObserve(writer.New())
	if strings.Join(fresh, "|") != "|4|false|||" {
		r.Fail(Failure{What: "a writer constructed without options does not have the documented defaults", Detail: strings.Join(fresh, "|"), Input: map[string]any{"history": desc}})
	}
	c := fmt.Sprintf("(mk_case18 %s %s %s [%s] [%s] [%s])", coqConf(defaults), coqfmt.Strs(wKeys),
		coqfmt.List(wFallback, func(p [2]string) string { return "(" + coqfmt.Str(p[0]) + ", " + p[1] + ")" }),
		strings.Join(hist, "; "), strings.Join(obs, "; "), strings.Join(calls, "; "))
	cf.Add(c)
	r.NoteCase(c, len(insts) >= 2, map[string]any{"kind": "writer", "history": desc})
}

type wPerCall struct {
	o  *writer.Options
	pc [][2]string
}

// wOptSnapshot prints every field of a per-call options value.
func wOptSnapshot(o *writer.Options) string {
	ind, nc, be := "-", "-", "-"
	if o.RenderOptions != nil {
		ind = fmt.Sprint(o.RenderOptions.Indent)
	}
	if o.StoreOptions != nil {
		nc, be = fmt.Sprint(o.StoreOptions.NoClobber), tok(o.StoreOptions.BackendOptions)
	}
	return fmt.Sprintf("format=%q indent=%s serialize-set=%v noclobber=%s backend=%s fo=%s fo-other=%s", o.Format, ind, o.SerializeOptions != nil, nc, be,
		tok(o.GetFormatOptions(&nativefakes.FakeSerializer{})), tok(o.GetFormatOptions("other")))
}

// effective values observed for a write: which registered fake got the call, with what arguments
var driverGotNilOptions int

func wEffective(fa, fb *nativefakes.FakeSerializer, nA, nB int, err error) []string {
	var f *nativefakes.FakeSerializer
	format := ""
	switch {
	case fa.SerializeCallCount() > nA:
		f, format = fa, string(fmtA)
	case fb.SerializeCallCount() > nB:
		f, format = fb, string(fmtB)
	}
	if f == nil {
		return []string{"", "", "", "", "", ""}
	}
	_, so, fo := f.SerializeArgsForCall(f.SerializeCallCount() - 1)
	_, _, ro, _ := f.RenderArgsForCall(f.RenderCallCount() - 1)
	ind := ""
	if ro != nil {
		ind = fmt.Sprint(ro.Indent)
	}
	if so == nil || ro == nil {
		// a driver is always handed option values: the call's, the writer's or the library defaults
		driverGotNilOptions++
	}
	// noclobber / store-backend / fo:other do not take part in a write: reported as the model's
	// "nothing" so that only the three effective settings are compared
	return []string{format, ind, "-", "-", tok(fo), "-"}
}

// ---- reader ---------------------------------------------------------------------------------
var rKeys = []string{"retrieve-backend", "fo:*nativefakes.FakeUnserializer", "fo:other"}
var rFallback = [][2]string{{"retrieve-backend", "1"}}

type rPerCall struct {
	o  *reader.Options
	pc [][2]string
}

func rOptSnapshot(o *reader.Options) string {
	be := "-"
	if o.RetrieveOptions != nil {
		be = tok(o.RetrieveOptions.BackendOptions)
	}
	return fmt.Sprintf("format=%q unserialize-set=%v backend=%s fo=%s fo-other=%s", o.Format, o.UnserializeOptions != nil, be,
		tok(o.GetFormatOptions("*nativefakes.FakeUnserializer")), tok(o.GetFormatOptions("other")))
}

// fixedSniffer reports one format for every input.
type fixedSniffer struct{ f formats.Format }

func (s fixedSniffer) SniffReader(io.ReadSeeker) (formats.Format, error) { return s.f, nil }
func (s fixedSniffer) SniffFile(string) (formats.Format, error)          { return s.f, nil }

func rObserve(rd *reader.Reader) []string {
	be := ""
	if rd.Options.RetrieveOptions != nil {
		be = tok(rd.Options.RetrieveOptions.BackendOptions)
	}
	return []string{be, tok(rd.Options.GetFormatOptions("*nativefakes.FakeUnserializer")), tok(rd.Options.GetFormatOptions("other"))}
}

func (r *Report) readerHistory(g *gen.G, cf *CasesFile, dir string) {
	fu := &nativefakes.FakeUnserializer{}
	fu.UnserializeReturns(sbom.NewDocument(), nil)
	reader.RegisterUnserializer(fmtA, fu)
	defer reader.UnregisterUnserializer(fmtA)
	var insts []*reader.Reader
	var percall []rPerCall
	rrec := &recBackend{}
	var hist, obs, calls []string
	var desc []any
	steps := 2 + g.Int(7)
	for s := 0; s < steps; s++ {
		if len(insts) == 0 || g.Chance(0.55) {
			var specs []optSpec
			var opts []reader.ReaderOption
			for k := g.Int(4); k > 0; k-- {
				switch g.Int(4) {
				case 0:
					t := fmt.Sprintf("rb%d", g.Int(100))
					opts = append(opts, reader.WithRetrieveOptions(&storage.RetrieveOptions{BackendOptions: t}))
					specs = append(specs, optSpec{"retrieve-backend", t})
				case 1:
					t := fmt.Sprintf("fo%d", g.Int(100))
					opts = append(opts, reader.WithFormatOptions("*nativefakes.FakeUnserializer", t))
					specs = append(specs, optSpec{"fo:*nativefakes.FakeUnserializer", t})
				case 2:
					t := fmt.Sprintf("fx%d", g.Int(100))
					opts = append(opts, reader.WithFormatOptions("other", t))
					specs = append(specs, optSpec{"fo:other", t})
				default:
					opts = append(opts, reader.WithRetrieveOptions(nil), reader.WithUnserializeOptions(nil))
					specs = append(specs, optSpec{}, optSpec{})
				}
			}
			// every reader gets a sniffer that reports the fake's format (so that the entry points without a
			// stated format reach the fake driver) and the recording backend, both through their options
			opts = append(opts, reader.WithSniffer(fixedSniffer{fmtA}), reader.WithSniffer(nil), reader.WithStoreRetriever(rrec), reader.WithStoreRetriever(nil))
			var myUO *native.UnserializeOptions
			if g.Chance(0.4) {
				myUO = &native.UnserializeOptions{}
				opts = append(opts, reader.WithUnserializeOptions(myUO), reader.WithUnserializeOptions(nil))
			}
			nr := reader.New(opts...)
			if (myUO != nil && nr.Options.UnserializeOptions != myUO) || nr.Options.UnserializeOptions == nil {
				r.Fail(Failure{What: "a reader's unserialize options after construction are not the given value (or a nil argument replaced them)", Input: map[string]any{"history": desc, "with": specs}})
			}
			if nr.Storage != storage.StoreRetriever(rrec) {
				r.Fail(Failure{What: "WithStoreRetriever did not install the given backend (or a nil argument replaced it)", Input: map[string]any{"history": desc}})
			}
			insts = append(insts, nr)
			hist = append(hist, "(HNew "+coqfmt.List(specs, coqOpt)+")")
			desc = append(desc, map[string]any{"new_reader_with": specs})
			r.Count("reader:new")
		} else {
			i := g.Int(len(insts))
			rd := insts[i]
			if g.Chance(0.45) {
				// Retrieve / RetrieveWithOptions against the recording backend
				var pc [][2]string
				n0 := len(rrec.retrieveOpts)
				rrec.failNext = g.Chance(0.3)
				wantErr := rrec.failNext
				var rdoc *sbom.Document
				var rerr error
				if g.Chance(0.6) {
					rdoc, rerr = rd.Retrieve("some-id") // the plain entry point hands the library defaults to the backend
				} else {
					t := fmt.Sprintf("pr%d", g.Int(100))
					rdoc, rerr = rd.RetrieveWithOptions("some-id", &reader.Options{RetrieveOptions: &storage.RetrieveOptions{BackendOptions: t}})
					pc = append(pc, [2]string{"retrieve-backend", t})
				}
				if (rerr != nil) != wantErr || (!wantErr && rdoc != rrec.lastDoc) || (wantErr && rdoc != nil) {
					r.Fail(Failure{What: "a retrieve through a reader did not return what the storage backend returned", Detail: fmt.Sprintf("backend failed: %v, reader returned document %v, error %v", wantErr, rdoc != nil, rerr), Input: map[string]any{"history": desc}})
				}
				eff := []string{"", "-", "-"}
				if len(rrec.retrieveOpts) > n0 {
					if o := rrec.retrieveOpts[len(rrec.retrieveOpts)-1]; o != nil {
						eff[0] = tok(o.BackendOptions)
					}
				}
				hist = append(hist, fmt.Sprintf("(HCall %d%%nat (Some %s))", i, coqConf(pc)))
				calls = append(calls, coqfmt.Strs(eff))
				desc = append(desc, map[string]any{"retrieve_on": i, "percall": pc, "effective": eff})
				// what the backend is handed is the call's own options, or the library default (none) for the
				// plain entry point: never what some instance was constructed with
				wantBE := ""
				if len(pc) > 0 {
					wantBE = pc[0][1]
				}
				own := rObserve(rd)[0] // the property does not say whether the plain entry point uses the instance's own options or the library defaults
				if eff[0] != wantBE && !(len(pc) == 0 && eff[0] == own) {
					r.Fail(Failure{What: "a retrieve handed the storage backend options that are neither the call's own nor the library defaults", Detail: fmt.Sprintf("backend options %q, expected %q", eff[0], wantBE), Input: map[string]any{"history": desc}})
				}
				r.Count("reader:retrieve")
				var all []string
				for _, x := range insts {
					all = append(all, coqfmt.Strs(rObserve(x)))
				}
				obs = append(obs, "["+strings.Join(all, "; ")+"]")
				r.OracleEvals++
				if fresh := rObserve(reader.New()); strings.Join(fresh, "|") != "||" {
					r.Fail(Failure{What: "a reader constructed without options does not have the documented defaults (the library defaults were changed by the history so far)", Detail: strings.Join(fresh, "|"), Input: map[string]any{"history": desc}})
				}
				continue
			}
			inPath := filepath.Join(dir, "c18-in.tmp")
			_ = os.WriteFile(inPath, []byte("{}"), 0o600)
			if g.Chance(0.35) {
				// the entry points without per-call options: the instance's own configuration applies
				n0 := fu.UnserializeCallCount()
				var err error
				cfgBefore := rOptSnapshot(rd.Options)
				if g.Chance(0.5) {
					_, err = rd.ParseStream(bytes.NewReader([]byte("{}")))
				} else {
					_, err = rd.ParseFile(inPath)
					r.Count("reader:call-plain-file")
				}
				if cfgAfter := rOptSnapshot(rd.Options); cfgAfter != cfgBefore {
					r.Fail(Failure{What: "a parse changed the configuration of the reader it was called on", Detail: fmt.Sprintf("before %s, after %s", cfgBefore, cfgAfter), Input: map[string]any{"history": desc, "on": i}})
				}
				eff := []string{"-", "", "-"}
				if err == nil && fu.UnserializeCallCount() > n0 {
					_, _, fo := fu.UnserializeArgsForCall(fu.UnserializeCallCount() - 1)
					eff[1] = tok(fo)
				} else {
					r.Fail(Failure{What: "a reader whose sniffer reports a registered format did not reach that format's driver", Detail: fmt.Sprint(err), Input: map[string]any{"history": desc}})
				}
				hist = append(hist, fmt.Sprintf("(HCall %d%%nat None)", i))
				calls = append(calls, coqfmt.Strs(eff))
				desc = append(desc, map[string]any{"parse_plain_on": i, "effective": eff})
				r.Count("reader:call-plain")
				var all []string
				for _, x := range insts {
					all = append(all, coqfmt.Strs(rObserve(x)))
				}
				obs = append(obs, "["+strings.Join(all, "; ")+"]")
				continue
			}
			o := &reader.Options{Format: fmtA}
			pc := [][2]string{}
			if len(percall) > 0 && g.Chance(0.4) {
				k := g.Int(len(percall))
				o, pc = percall[k].o, percall[k].pc
				r.Count("reader:percall-options-reused")
			} else {
				if g.Chance(0.3) {
					o.Format = "" // detection decides, per call
				}
				if g.Chance(0.5) {
					t := fmt.Sprintf("pc%d", g.Int(100))
					o.SetFormatOptions("*nativefakes.FakeUnserializer", t)
					pc = append(pc, [2]string{"fo:*nativefakes.FakeUnserializer", t})
				}
				percall = append(percall, rPerCall{o, pc})
			}
			snap := rOptSnapshot(o)
			n0 := fu.UnserializeCallCount()
			var err error
			if g.Chance(0.3) {
				_, err = rd.ParseFileWithOptions(inPath, o)
				r.Count("reader:call-with-options-file")
			} else {
				_, err = rd.ParseStreamWithOptions(bytes.NewReader([]byte("{}")), o)
			}
			r.OracleEvals++
			if after := rOptSnapshot(o); after != snap {
				r.Fail(Failure{What: "a parse changed the options value it was given for that call", Detail: fmt.Sprintf("before %s, after %s", snap, after), Input: map[string]any{"history": desc, "percall": pc, "on": i}})
			}
			eff := []string{"-", "", "-"}
			if err == nil && fu.UnserializeCallCount() > n0 {
				_, _, fo := fu.UnserializeArgsForCall(fu.UnserializeCallCount() - 1)
				eff[1] = tok(fo)
			}
			// options given to a single call are what that call uses: the driver gets the call's own format options
			if want := tok(o.GetFormatOptions("*nativefakes.FakeUnserializer")); err != nil || eff[1] != want {
				r.Fail(Failure{What: "a parse given per-call options did not hand the driver the call's own format options", Detail: fmt.Sprintf("driver received %q, the call's options hold %q (error: %v)", eff[1], want, err), Input: map[string]any{"history": desc, "percall": pc, "on": i}})
			}
			hist = append(hist, fmt.Sprintf("(HCall %d%%nat (Some %s))", i, coqConf(pc)))
			calls = append(calls, coqfmt.Strs(eff))
			desc = append(desc, map[string]any{"parse_stream_with_options_on": i, "percall": pc, "effective": eff})
			r.Count("reader:call-with-options")
		}
		var all []string
		for _, rd := range insts {
			all = append(all, coqfmt.Strs(rObserve(rd)))
		}
		obs = append(obs, "["+strings.Join(all, "; ")+"]")
	}
	r.OracleEvals++
	fresh := rObserve(reader.New())
	if strings.Join(fresh, "|") != "||" {
		r.Fail(Failure{What: "a reader constructed without options does not have the documented defaults", Detail: strings.Join(fresh, "|"), Input: map[string]any{"history": desc}})
	}
	c := fmt.Sprintf("(mk_case18 [] %s %s [%s] [%s] [%s])", coqfmt.Strs(rKeys),
		coqfmt.List(rFallback, func(p [2]string) string { return "(" + coqfmt.Str(p[0]) + ", " + p[1] + ")" }),
		strings.Join(hist, "; "), strings.Join(obs, "; "), strings.Join(calls, "; "))
	cf.Add(c)
	r.NoteCase(c, len(insts) >= 2, map[string]any{"kind": "reader", "history": desc})
}

func runC18(seed int64, n int, dir string, tier string) *Report {
	g := gen.New(seed)
	rep := NewReport("C18", seed)
	rep.Rule = "n writer histories and n reader histories of 2..8 steps: constructor calls with random subsets of the functional options (including nil arguments), interleaved with WriteStream / WriteStreamWithOptions / Store / StoreWithOptions / ParseStreamWithOptions / Retrieve / RetrieveWithOptions on random instances against registered fake drivers and a storage backend that record the options they receive; after every step a freshly constructed instance is compared with the documented defaults; after every step every live instance's option fields are read; non-trivial = at least two instances alive; distinct by hash"
	cf := &CasesFile{Imports: "Model.Base Model.Opts Corr.CheckC18", Type: "case18", Eval: "mismatches"}
	for i := 0; i < n; i++ {
		rep.writerHistory(g, cf, dir)
		rep.readerHistory(g, cf, dir)
	}
	// option sets built by hand (struct literals) are values of their own too: driver options set on one are
	// seen neither through another nor through instances constructed afterwards
	{
		rep.OracleEvals++
		wo1, wo2 := &writer.Options{}, &writer.Options{}
		ro1, ro2 := &reader.Options{}, &reader.Options{}
		wo1.SetFormatOptions("driver", "of-call-1")
		ro1.SetFormatOptions("driver", "of-call-1")
		wo2.SetFormatOptions("other-driver", 7)
		ro2.SetFormatOptions("other-driver", 7)
		leaks := []string{}
		for _, c := range []struct {
			what string
			got  any
		}{{"writer options 2 / driver", wo2.GetFormatOptions("driver")}, {"reader options 2 / driver", ro2.GetFormatOptions("driver")},
			{"writer options 1 / other-driver", wo1.GetFormatOptions("other-driver")}, {"reader options 1 / other-driver", ro1.GetFormatOptions("other-driver")},
			{"new writer / driver", writer.New().Options.GetFormatOptions("driver")}, {"new reader / driver", reader.New().Options.GetFormatOptions("driver")},
			{"new hand-built writer options / driver", (&writer.Options{}).GetFormatOptions("driver")}, {"new hand-built reader options / driver", (&reader.Options{}).GetFormatOptions("driver")}} {
			if c.got != nil {
				leaks = append(leaks, fmt.Sprintf("%s = %v", c.what, c.got))
			}
		}
		if wo1.GetFormatOptions("driver") != "of-call-1" || ro1.GetFormatOptions("driver") != "of-call-1" {
			leaks = append(leaks, "an option set does not return the driver options that were set on it")
		}
		if len(leaks) > 0 {
			rep.Fail(Failure{What: "driver options set on one hand-built option set are visible through another option set or instance", Detail: strings.Join(leaks, "; "), Input: map[string]any{"set_on_1": "driver=of-call-1", "set_on_2": "other-driver=7"}})
		}
	}
	// the storage backend an instance gets by default is its own: configuring one instance's backend in
	// place (the only way a default file-system backend can be configured) leaves every other instance alone
	{
		rep.OracleEvals++
		w1, w2 := writer.New(), writer.New()
		r1, r2 := reader.New(), reader.New()
		f1, ok1 := w1.Storage.(*storage.FileSystem)
		f2, ok2 := w2.Storage.(*storage.FileSystem)
		g1, ok3 := r1.Storage.(*storage.FileSystem)
		g2, ok4 := r2.Storage.(*storage.FileSystem)
		if !(ok1 && ok2 && ok3 && ok4) {
			rep.Fail(Failure{What: "an instance constructed without options does not have a file-system storage backend", Input: map[string]any{}})
		} else {
			before := []string{f2.Options.Path, g1.Options.Path, g2.Options.Path}
			f1.Options.Path = filepath.Join(dir, "c18-store-of-writer-1")
			w3, r3 := writer.New(), reader.New()
			after := []string{f2.Options.Path, g1.Options.Path, g2.Options.Path}
			f3, _ := w3.Storage.(*storage.FileSystem)
			g3, _ := r3.Storage.(*storage.FileSystem)
			if fmt.Sprint(before) != fmt.Sprint(after) || f3 == nil || g3 == nil || f3.Options.Path != before[0] || g3.Options.Path != before[1] {
				rep.Fail(Failure{What: "configuring one writer's default storage backend changed the backend of another instance (or of instances constructed later)", Detail: fmt.Sprintf("paths before %v after %v", before, after), Input: map[string]any{"configured": "writer 1", "path": f1.Options.Path}})
			}
			g1.Options.Path = filepath.Join(dir, "c18-store-of-reader-1")
			if f2.Options.Path != before[0] || g2.Options.Path != before[2] {
				rep.Fail(Failure{What: "configuring one reader's default storage backend changed the backend of another instance", Input: map[string]any{"configured": "reader 1"}})
			}
		}
	}
	rep.CasesFiles = cf.Write(filepath.Join(dir, "cases_C18"))
	rep.ShardSize = shardSize
	return rep
}
