(* What RelateNodeListAtID computes, as sets: nodes, typed edge triples, roots. *)
From Coq Require Import Lia.
From Verif Require Import Model.Base Model.Node Model.Graph Proofs.ListFacts Proofs.GraphFacts Proofs.OpsWf Proofs.SetLaws.
Open Scope list_scope.

Lemma map_first_edge_keys k tosf es :
  map key_of (map_first_edge k (fun e => set_to (tosf e) e) es) = map key_of es.
Proof.
  induction es as [|e r IH]; simpl; [reflexivity|].
  destruct (ekey_eqb (key_of e) k); simpl; [reflexivity|]. rewrite IH. reflexivity.
Qed.

Lemma has_key_map_first k k' tosf es :
  has_key k' (map_first_edge k (fun e => set_to (tosf e) e) es) = has_key k' es.
Proof. unfold has_key. rewrite map_first_edge_keys. reflexivity. Qed.

Lemma has_key_app k es1 es2 : has_key k es1 = true -> has_key k (es1 ++ es2) = true.
Proof.
  unfold has_key. intros H. apply kmem_In. apply kmem_In in H. rewrite map_app. apply in_or_app. left. exact H.
Qed.

Lemma map_first_edge_InE k new es f t x : has_key k es = true ->
  InE (map_first_edge k (fun e => set_to (add_dest (e_to e) new) e) es) f t x <->
  InE es f t x \/ ((f, t) = k /\ In x new).
Proof.
  induction es as [|e r IH]; intros Hk.
  - unfold has_key in Hk. simpl in Hk. discriminate.
  - simpl. destruct (ekey_eqb (key_of e) k) eqn:E.
    + apply ekey_eqb_eq in E. unfold InE. split.
      * intros [e' [[E'|Hin] [Hf [Ht Hx]]]].
        -- subst e'. cbn [set_to e_from e_type e_to] in *. apply add_dest_In in Hx as [Hx|Hx].
           ++ left. exists e. split; [left; reflexivity|]. auto.
           ++ right. split; [|exact Hx]. rewrite <- E. unfold key_of. congruence.
        -- left. exists e'. split; [right; exact Hin|]. auto.
      * intros [[e' [[E'|Hin] [Hf [Ht Hx]]]]|[Hkk Hx]].
        -- subst e'. exists (set_to (add_dest (e_to e) new) e). split; [left; reflexivity|]. cbn [set_to e_from e_type e_to].
           split; [exact Hf|]. split; [exact Ht|]. apply add_dest_In. left. exact Hx.
        -- exists e'. split; [right; exact Hin|]. auto.
        -- exists (set_to (add_dest (e_to e) new) e). split; [left; reflexivity|]. cbn [set_to e_from e_type e_to].
           rewrite <- Hkk in E. unfold key_of in E. injection E as -> ->. split; [reflexivity|]. split; [reflexivity|].
           apply add_dest_In. right. exact Hx.
    + assert (Hk' : has_key k r = true).
      { unfold has_key in *. simpl in Hk. apply orb_true_iff in Hk as [Hk|Hk]; [|exact Hk].
        apply ekey_eqb_eq in Hk. subst. rewrite ekey_eqb_refl in E. discriminate. }
      specialize (IH Hk').
      change (e :: map_first_edge k (fun e0 => set_to (add_dest (e_to e0) new) e0) r)
        with ([e] ++ map_first_edge k (fun e0 => set_to (add_dest (e_to e0) new) e0) r).
      change (e :: r) with ([e] ++ r). rewrite !InE_app, IH. tauto.
Qed.

Lemma InE_single f0 t0 tos f t x :
  InE [ {| e_type := t0; e_from := f0; e_to := tos |} ] f t x <-> f = f0 /\ t = t0 /\ In x tos.
Proof.
  unfold InE. split.
  - intros [e [[<-|[]] [Hf [Ht Hx]]]]. cbn in *. auto.
  - intros [-> [-> Hx]]. eexists. split; [left; reflexivity|]. cbn. auto.
Qed.

Lemma InE_edge_copy e f t x : InE [edge_copy e] f t x <-> InE [e] f t x.
Proof. unfold InE, edge_copy. split; intros [e' [[<-|[]] H]]; eexists; (split; [left; reflexivity|]); exact H. Qed.

(* the typed edge triples after RelateNodeListAtID: the receiver's, the argument's, and one from the
   anchor to every root of the argument *)
Theorem relate_list_E l l2 a t l' f ty x : relate_list_at l l2 a t = Ok l' ->
  (Eset l' f ty x <-> Eset l f ty x \/ Eset l2 f ty x \/ (f = a /\ ty = t /\ In x (nl_root_elements l2))).
Proof.
  unfold relate_list_at. destruct (negb (has l a)); [discriminate|]. intros H. injection H as <-.
  unfold Eset; cbn [nl_edges].
  set (orig := nl_edges l).
  set (edges1 := if has_key (a, t) orig
                 then map_first_edge (a, t) (fun e => set_to (add_dest (e_to e) (nl_root_elements l2)) e) orig
                 else orig ++ [ {| e_type := t; e_from := a; e_to := nl_root_elements l2 |} ]).
  assert (H1 : forall f ty x, InE edges1 f ty x <-> InE orig f ty x \/ (f = a /\ ty = t /\ In x (nl_root_elements l2))).
  { intros f0 ty0 x0. unfold edges1. destruct (has_key (a, t) orig) eqn:Ek.
    - rewrite (map_first_edge_InE _ _ _ _ _ _ Ek). split; (intros [H|H]; [left; exact H|right]).
      + destruct H as [E Hx]. injection E as -> ->. auto.
      + destruct H as [-> [-> Hx]]. auto.
    - rewrite InE_app, InE_single. tauto. }
  assert (K1 : forall k, has_key k orig = true -> has_key k edges1 = true).
  { intros k Hk. unfold edges1. destruct (has_key (a, t) orig); [rewrite has_key_map_first; exact Hk|apply has_key_app; exact Hk]. }
  clearbody edges1.
  assert (G : forall es2 es, (forall k, has_key k orig = true -> has_key k es = true) ->
            forall f ty x,
            InE (fold_left (fun es e => if has_key (key_of e) orig
                                        then map_first_edge (key_of e) (fun e0 => set_to (add_dest (e_to e0) (e_to e)) e0) es
                                        else es ++ [edge_copy e]) es2 es) f ty x
            <-> InE es f ty x \/ InE es2 f ty x).
  { induction es2 as [|e r IH]; intros es Hkeys f0 ty0 x0; cbn [fold_left].
    - split; [left; assumption|intros [H|[e [[] _]]]; exact H].
    - rewrite IH.
      + destruct (has_key (key_of e) orig) eqn:Ek.
        * rewrite (map_first_edge_InE _ _ _ _ _ _ (Hkeys _ Ek)).
          change (e :: r) with ([e] ++ r). rewrite InE_app.
          assert (He : InE [e] f0 ty0 x0 <-> (f0, ty0) = key_of e /\ In x0 (e_to e)).
          { unfold InE, key_of. split.
            - intros [e' [[<-|[]] [Hf [Ht Hx]]]]. split; [congruence|exact Hx].
            - intros [E Hx]. injection E as -> ->. exists e. split; [left; reflexivity|]. auto. }
          rewrite He. tauto.
        * rewrite InE_app, InE_edge_copy. change (e :: r) with ([e] ++ r). rewrite InE_app. tauto.
      + intros k Hk. destruct (has_key (key_of e) orig); [rewrite has_key_map_first; apply Hkeys; exact Hk|apply has_key_app, Hkeys; exact Hk]. }
  rewrite (G (nl_edges l2) edges1 K1), H1. tauto.
Qed.

Theorem relate_list_N l l2 a t l' i : relate_list_at l l2 a t = Ok l' ->
  (Nset l' i <-> Nset l i \/ Nset l2 i).
Proof.
  unfold relate_list_at. destruct (negb (has l a)); [discriminate|]. intros H. injection H as <-.
  unfold Nset, ids; cbn [nl_nodes]. rewrite map_app, in_app_iff.
  change (map n_id (nl_nodes l)) with (ids l).
  rewrite (map_filter_ids (fun i => negb (mem i (ids l)))), filter_In, negb_true_iff, mem_false.
  change (map n_id (nl_nodes l2)) with (ids l2).
  destruct (in_dec string_dec i (ids l)); tauto.
Qed.

Theorem relate_list_R l l2 a t l' : relate_list_at l l2 a t = Ok l' -> nl_root_elements l' = nl_root_elements l.
Proof. unfold relate_list_at. destruct (negb (has l a)); [discriminate|]. intros H. injection H as <-. reflexivity. Qed.
