(* Correspondence evaluator for the crash model of Store (C20):
   (A) the file-system calls the real Store issues, as observed by strace, are the model's store_ops;
   (B) the set of post-crash directory listings the harness materialises is exactly crash_states. *)
From Verif Require Import Model.Base Model.Store Corr.Canon.
Open Scope list_scope.

Inductive case20 :=
  | CTrace (observed : list Z)      (* kinds of the observed calls, in order *)
  | CStates (dk : list (string * (string * bool))) (tmp final data : string)
            (views : list (list (string * string))).

(* 1 create-temp (O_EXCL), 2 write, 3 chmod, 4 fsync, 5 close, 6 rename, 7 open-truncate *)
Definition kind_of (o : fsop) : Z :=
  match o with
  | FTruncOpen _ => 7 | FCreateTemp _ => 1 | FWrite _ _ => 2 | FChmod _ => 3 | FFsync _ => 4
  | FClose _ => 5 | FRename _ _ => 6
  end.

Definition ss_eqb (a b : string * string) : bool := String.eqb (fst a) (fst b) && String.eqb (snd a) (snd b).

(* listings as sets of listings, each listing a set of (name, content) *)
Definition ss_leb (a b : string * string) : bool :=
  match String.compare (fst a) (fst b) with Lt => true | Gt => false | Eq => String.leb (snd a) (snd b) end.
Fixpoint ssins (x : string * string) (l : list (string * string)) : list (string * string) :=
  match l with [] => [x] | y :: r => if ss_leb x y then x :: l else y :: ssins x r end.
Definition norm_view (v : list (string * string)) : list (string * string) := fold_right ssins [] v.

Definition view_mem (v : list (string * string)) (vs : list (list (string * string))) : bool :=
  existsb (fun w => list_eqb ss_eqb (norm_view v) (norm_view w)) vs.

Definition case_ok (c : case20) : bool :=
  match c with
  | CTrace obs => list_eqb Z.eqb obs (map kind_of (store_ops "t" "f" "d"))
  | CStates dk tmp final data views =>
      let d := map (fun kv => (fst kv, mk_dfile (fst (snd kv)) (snd (snd kv)))) dk in
      let model := crash_states d (store_ops tmp final data) in
      forallb (fun v => view_mem v model) views && forallb (fun v => view_mem v views) model
  end.

Definition mismatches (cs : list case20) : list nat := failing case_ok cs.
