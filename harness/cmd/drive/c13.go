package main

import (
	"fmt"
	"google.golang.org/protobuf/types/known/timestamppb"
	"path/filepath"
	"strings"

	"github.com/protobom/protobom/pkg/sbom"
	"google.golang.org/protobuf/proto"

	"verifharness/coqfmt"
	"verifharness/gen"
	"verifharness/graphops"
)

func init() { runners["C13"] = runC13 }

// cloneNode is a deep copy that also preserves the one Go-level distinction the flat string
// observes: a nil versus an empty Contacts slice.
func cloneNode(n *sbom.Node) *sbom.Node {
	c := proto.Clone(n).(*sbom.Node)
	for i := range n.Suppliers {
		fixContacts(n.Suppliers[i], c.Suppliers[i])
	}
	for i := range n.Originators {
		fixContacts(n.Originators[i], c.Originators[i])
	}
	return c
}

func fixContacts(src, dst *sbom.Person) {
	if src == nil || dst == nil {
		return
	}
	if src.Contacts != nil && dst.Contacts == nil {
		dst.Contacts = []*sbom.Person{}
	}
	for i := range src.Contacts {
		fixContacts(src.Contacts[i], dst.Contacts[i])
	}
}

func cloneListExact(nl *sbom.NodeList) *sbom.NodeList {
	c := proto.Clone(nl).(*sbom.NodeList)
	for i := range nl.Nodes {
		c.Nodes[i] = cloneNode(nl.Nodes[i])
	}
	return c
}
func cloneEdge(e *sbom.Edge) *sbom.Edge { return proto.Clone(e).(*sbom.Edge) }

// separator characters of the flat formats; a mutation whose new/old value contains one is
// attributed to known finding K1 when equality fails to discriminate
func hasSeparator(ss ...string) bool {
	for _, s := range ss {
		if strings.ContainsAny(s, ":+()[]") {
			return true
		}
	}
	return false
}

func edgeJSON(e *sbom.Edge) any {
	return map[string]any{"type": int32(e.Type), "from": e.From, "to": e.To}
}

func runC13(seed int64, n int, dir string, tier string) *Report {
	g := gen.New(seed)
	rep := NewReport("C13", seed)
	rep.Rule = "n rounds; each: a random node (all schema fields, nested persons/contacts, external references with hashes, arbitrary characters incl. the format's separators) paired with (i) itself, (ii) a copy with every set-valued collection shuffled, (iii) a copy with exactly one attribute changed (chosen by reflection over the schema, nested levels included), (iv) an unrelated node; the same for edges and node lists; exact flat strings compared with the model; non-trivial = node with >=4 populated fields; distinct by hash"
	cf := &CasesFile{Imports: "Model.Base Model.Graph Model.Flat Corr.CheckC13", Type: "case13", Eval: "mismatches"}

	nodeCase := func(a, b *sbom.Node, kind string) bool {
		fa, fb := a.VerifFlatString(), b.VerifFlatString()
		eq := a.Equal(b)
		c := fmt.Sprintf("(CNode %s %s %s %s %s)", coqfmt.Node(a), coqfmt.Node(b), coqfmt.Str(fa), coqfmt.Str(fb), coqfmt.Bool(eq))
		cf.Add(c)
		pop := 0
		a.ProtoReflect().Range(func(_ protoreflectFD, _ protoreflectV) bool { pop++; return true })
		rep.NoteCase(c, pop >= 4, map[string]any{"kind": "node " + kind, "a": nodeJSON(a), "b": nodeJSON(b), "flat_a": fa, "flat_b": fb, "equal": eq})
		rep.Count("node_pair=" + kind)
		// equality agrees with checksum equality, both ways round
		rep.OracleEvals++
		if sameSum := a.Checksum() == b.Checksum(); sameSum != eq || b.Equal(a) != eq {
			rep.Fail(Failure{What: "Node.Equal does not agree with checksum equality (or is not symmetric)", Detail: fmt.Sprintf("a.Equal(b)=%v b.Equal(a)=%v checksums equal=%v", eq, b.Equal(a), sameSum), Input: map[string]any{"kind": kind, "a": nodeJSON(a), "b": nodeJSON(b)}})
		}
		return eq
	}
	edgeCase := func(a, b *sbom.Edge, kind string) bool {
		fa, fb := a.VerifFlatString(), b.VerifFlatString()
		eq := a.Equal(b)
		c := fmt.Sprintf("(CEdge %s %s %s %s %s)", coqfmt.Edge(a), coqfmt.Edge(b), coqfmt.Str(fa), coqfmt.Str(fb), coqfmt.Bool(eq))
		cf.Add(c)
		rep.NoteCase(c, len(a.To) >= 2, map[string]any{"kind": "edge " + kind, "a": edgeJSON(a), "b": edgeJSON(b), "flat_a": fa, "flat_b": fb, "equal": eq})
		rep.Count("edge_pair=" + kind)
		return eq
	}
	listCase := func(a, b *sbom.NodeList, kind string) bool {
		eq := a.Equal(b)
		c := fmt.Sprintf("(CList %s %s %s)", coqfmt.NodeList(a), coqfmt.NodeList(b), coqfmt.Bool(eq))
		cf.Add(c)
		rep.NoteCase(c, len(a.Nodes) >= 2, map[string]any{"kind": "list " + kind, "a": graphops.PJ(a), "b": graphops.PJ(b), "equal": eq})
		rep.Count("list_pair=" + kind)
		return eq
	}

	for i := 0; i < n; i++ {
		rich := 0.15 + 0.8*g.R.Float64()
		a := g.Node(gen.Pick(g, gen.IDPool), rich)
		// ---- nodes -----------------------------------------------------------------
		rep.OracleEvals++
		if !nodeCase(a, cloneNode(a), "same") {
			rep.Fail(Failure{What: "Node.Equal is not reflexive", Input: map[string]any{"a": nodeJSON(a)}})
		}
		sh := cloneNode(a)
		g.ShuffleSets(sh.ProtoReflect())
		if !nodeCase(a, sh, "shuffled") {
			rep.Fail(Failure{What: "Node.Equal depends on the order of a set-valued attribute", Input: map[string]any{"a": nodeJSON(a), "b": nodeJSON(sh)}})
		}
		// dates are compared to the second: a difference below the second is no difference
		if a.ReleaseDate != nil || a.BuildDate != nil || a.ValidUntilDate != nil {
			ss := cloneNode(a)
			for _, ts := range []*timestamppb.Timestamp{ss.ReleaseDate, ss.BuildDate, ss.ValidUntilDate} {
				if ts != nil {
					ts.Nanos = (ts.Nanos + 1 + int32(g.Int(900000000))) % 1000000000
				}
			}
			if !nodeCase(a, ss, "dates-differ-below-the-second") {
				rep.Fail(Failure{What: "Node.Equal tells apart nodes whose dates differ only below the second", Input: map[string]any{"a": nodeJSON(a), "b": nodeJSON(ss)}})
			}
		}
		mut := cloneNode(a)
		desc := g.MutateOne(mut.ProtoReflect())
		eqm := nodeCase(a, mut, "one-attribute-changed")
		rep.OracleEvals++
		if eqm {
			f := Failure{What: "Node.Equal does not discriminate: nodes differing in one attribute compare equal", Detail: desc, Input: map[string]any{"a": nodeJSON(a), "b": nodeJSON(mut), "changed": desc}}
			rep.Fail(f)
		}
		// every single-attribute change, at every nesting level (enumerated by reflection)
		if i%4 == 0 {
			pts := gen.MutationPoints(a.ProtoReflect())
			for k := 0; k < pts; k++ {
				mk := cloneNode(a)
				d := gen.MutateAt(mk.ProtoReflect(), k)
				rep.OracleEvals++
				if a.Equal(mk) || a.Checksum() == mk.Checksum() {
					f := Failure{What: "Node.Equal does not discriminate: nodes differing in one attribute compare equal", Detail: d, Input: map[string]any{"a": nodeJSON(a), "b": nodeJSON(mk), "changed": d}}
					if hasSeparator(gen.LastOld) {
						f.Finder = "flat_separator_collision"
					}
					rep.Fail(f)
				}
			}
			rep.Count("exhaustive_single_attribute_sweeps")
		}
		if a.Equal(mut) != mut.Equal(a) {
			rep.Fail(Failure{What: "Node.Equal is not symmetric", Input: map[string]any{"a": nodeJSON(a), "b": nodeJSON(mut)}})
		}
		if (a.Checksum() == mut.Checksum()) != eqm || a.Checksum() != sh.Checksum() {
			rep.Fail(Failure{What: "Node.Equal disagrees with checksum equality", Input: map[string]any{"a": nodeJSON(a), "b": nodeJSON(mut)}})
		}
		other := g.Node(gen.Pick(g, gen.IDPool), rich)
		eo := nodeCase(a, other, "unrelated")
		// transitivity on (a, shuffled, x)
		for _, x := range []*sbom.Node{mut, other} {
			rep.OracleEvals++
			if a.Equal(sh) && sh.Equal(x) != a.Equal(x) {
				rep.Fail(Failure{What: "Node.Equal is not transitive", Input: map[string]any{"a": nodeJSON(a), "b": nodeJSON(sh), "c": nodeJSON(x)}})
			}
		}
		_ = eo
		// nested renderers
		for _, p := range a.Suppliers {
			c := fmt.Sprintf("(CPerson %s %s)", coqfmt.Msg(p), coqfmt.Str(p.VerifFlatString()))
			cf.Add(c)
			rep.NoteCase(c, len(p.Contacts) > 0, map[string]any{"kind": "person", "flat": p.VerifFlatString()})
		}
		for _, x := range a.ExternalReferences {
			c := fmt.Sprintf("(CXref %s %s)", coqfmt.Msg(x), coqfmt.Str(x.VerifFlatString()))
			cf.Add(c)
			rep.NoteCase(c, len(x.Hashes) > 0, map[string]any{"kind": "extref", "flat": x.VerifFlatString()})
		}

		// ---- edges -----------------------------------------------------------------
		e := &sbom.Edge{Type: g.EdgeType(), From: gen.Pick(g, append(gen.IDPool, gen.OddIDs...))}
		for k := g.Int(4); k > 0; k-- {
			e.To = append(e.To, gen.Pick(g, append(gen.IDPool, "x+y", "b+c", "")))
		}
		rep.OracleEvals++
		if !edgeCase(e, cloneEdge(e), "same") {
			rep.Fail(Failure{What: "Edge.Equal is not reflexive", Input: map[string]any{"a": edgeJSON(e)}})
		}
		es := cloneEdge(e)
		g.R.Shuffle(len(es.To), func(x, y int) { es.To[x], es.To[y] = es.To[y], es.To[x] })
		if !edgeCase(e, es, "targets-shuffled") {
			rep.Fail(Failure{What: "Edge.Equal depends on the order of the targets", Input: map[string]any{"a": edgeJSON(e), "b": edgeJSON(es)}})
		}
		em := cloneEdge(e)
		var edesc string
		switch g.Int(3) {
		case 0:
			em.Type++
			edesc = "type changed"
		case 1:
			em.From += "x"
			edesc = "from changed"
		default:
			em.To = append(em.To, "newtarget")
			edesc = "target added"
		}
		rep.OracleEvals++
		if edgeCase(e, em, "one-attribute-changed") {
			f := Failure{What: "Edge.Equal does not discriminate: edges differing in one attribute compare equal", Detail: edesc, Input: map[string]any{"a": edgeJSON(e), "b": edgeJSON(em)}}
			if hasSeparator(e.From) || hasSeparator(e.To...) {
				f.Finder = "flat_separator_collision"
			}
			rep.Fail(f)
		}

		// ---- node lists ------------------------------------------------------------
		if i%3 == 0 {
			shp := gen.Shape{MaxNodes: 4, MaxEdges: 5, WellFormed: i%2 == 0, Richness: 0.3, OddIDs: 0.05, Pool: gen.IDPool[:5]}
			la := g.NodeList(shp)
			rep.OracleEvals++
			if !listCase(la, cloneListExact(la), "same") {
				rep.Fail(Failure{What: "NodeList.Equal is not reflexive", Input: map[string]any{"a": graphops.PJ(la)}})
			}
			ls := shuffled(g, cloneListExact(la))
			g.R.Shuffle(len(ls.RootElements), func(x, y int) { ls.RootElements[x], ls.RootElements[y] = ls.RootElements[y], ls.RootElements[x] })
			if !listCase(la, ls, "shuffled") && uniqueIDs(la) {
				rep.Fail(Failure{What: "NodeList.Equal depends on the order of nodes, edges, targets or roots", Input: map[string]any{"a": graphops.PJ(la), "b": graphops.PJ(ls)}})
			}
			lm := cloneListExact(la)
			ldesc := ""
			switch {
			case len(lm.Nodes) > 0 && g.Chance(0.5):
				k := g.Int(len(lm.Nodes))
				ldesc = fmt.Sprintf("nodes[%d].", k) + g.MutateOne(lm.Nodes[k].ProtoReflect())
			case len(lm.Edges) > 0 && g.Chance(0.5):
				k := g.Int(len(lm.Edges))
				lm.Edges[k].To = append(lm.Edges[k].To, "newtarget")
				ldesc = fmt.Sprintf("edges[%d] target added", k)
			case len(lm.RootElements) > 0 && g.Chance(0.6):
				// same number of roots, one of them different: only the element comparison sees it
				k := g.Int(len(lm.RootElements))
				lm.RootElements[k] = lm.RootElements[k] + "-other"
				ldesc = fmt.Sprintf("root %d replaced", k)
			default:
				lm.RootElements = append(lm.RootElements, "newroot")
				ldesc = "root added"
			}
			rep.OracleEvals++
			if listCase(la, lm, "one-change") {
				f := Failure{What: "NodeList.Equal does not discriminate: lists differing in one place compare equal", Detail: ldesc, Input: map[string]any{"a": graphops.PJ(la), "b": graphops.PJ(lm), "changed": ldesc}}
				switch {
				case !uniqueIDs(la) && strings.HasPrefix(ldesc, "nodes["):
					f.Finder = "equal_shadowed_duplicate"
				case strings.HasPrefix(ldesc, "nodes[") || strings.Contains(ldesc, "edges["):
					f.Finder = "flat_separator_collision_maybe"
				}
				if f.Finder == "flat_separator_collision_maybe" {
					f.Finder = ""
				}
				rep.Fail(f)
			}
			// a nil operand equals nothing (and must not panic)
			rep.OracleEvals++
			if pv := safely(func() {
				if la.Equal(nil) || a.Equal(nil) || e.Equal(nil) {
					rep.Fail(Failure{What: "Equal(nil) reports equality", Input: map[string]any{"a": graphops.PJ(la)}})
				}
			}); pv != nil {
				rep.Fail(Failure{What: "Equal(nil) panicked", Detail: fmt.Sprint(pv), Input: map[string]any{"a": graphops.PJ(la)}})
			}
			// the same set of roots with other multiplicities is another list (and the answer is the same both ways)
			if len(la.Nodes) >= 2 {
				x, y := la.Nodes[0].Id, la.Nodes[1].Id
				l1, l2 := cloneListExact(la), cloneListExact(la)
				l1.RootElements = [][]string{{x, x, y}, {x, x}, {x, y, x, y}}[i%3]
				l2.RootElements = [][]string{{y, x, y}, {x, y}, {x, x, x, y}}[i%3]
				rep.OracleEvals++
				e12, e21 := listCase(l1, l2, "roots-multiplicity"), listCase(l2, l1, "roots-multiplicity")
				if (e12 || e21) && x != y {
					rep.Fail(Failure{What: "NodeList.Equal does not discriminate: lists whose root elements differ in multiplicity compare equal (one way or both)", Detail: fmt.Sprintf("%v vs %v: %v / %v", l1.RootElements, l2.RootElements, e12, e21), Input: map[string]any{"a": graphops.PJ(l1), "b": graphops.PJ(l2)}})
				}
			}
			lo := g.NodeList(shp)
			listCase(la, lo, "unrelated")
			if la.Equal(lo) != lo.Equal(la) {
				rep.Fail(Failure{What: "NodeList.Equal is not symmetric", Input: map[string]any{"a": graphops.PJ(la), "b": graphops.PJ(lo)}})
			}
		}
	}

	// ---- recorded witnesses of K1 (separator collisions) and K6 (shadowed duplicate) -------------
	{
		a := &sbom.Node{Id: "n", Name: "a:protobom.protobom.Node.version:b"}
		b := &sbom.Node{Id: "n", Name: "a", Version: "b"}
		rep.OracleEvals++
		if nodeCase(a, b, "K1-witness") {
			rep.Fail(Failure{What: "Node.Equal does not discriminate: nodes differing in two attributes compare equal", Finder: "flat_separator_collision", Detail: "recorded witness K1 (name containing the field separator)", Input: map[string]any{"a": nodeJSON(a), "b": nodeJSON(b)}})
		}
		e1 := &sbom.Edge{Type: sbom.Edge_contains, From: "a", To: []string{"b+c"}}
		e2 := &sbom.Edge{Type: sbom.Edge_contains, From: "a", To: []string{"b", "c"}}
		rep.OracleEvals++
		if edgeCase(e1, e2, "K1-witness") {
			rep.Fail(Failure{What: "Edge.Equal does not discriminate: edges with different targets compare equal", Finder: "flat_separator_collision", Detail: "recorded witness K1 (target containing '+')", Input: map[string]any{"a": edgeJSON(e1), "b": edgeJSON(e2)}})
		}
		l1 := &sbom.NodeList{Nodes: []*sbom.Node{{Id: "a", Name: "x"}, {Id: "a", Name: "y"}}}
		l2 := &sbom.NodeList{Nodes: []*sbom.Node{{Id: "a", Name: "CHANGED"}, {Id: "a", Name: "y"}}}
		rep.OracleEvals++
		if listCase(l1, l2, "K6-witness") {
			rep.Fail(Failure{What: "NodeList.Equal does not discriminate: lists differing in one place compare equal", Finder: "equal_shadowed_duplicate", Detail: "recorded witness K6 (first of two nodes with the same identifier differs)", Input: map[string]any{"a": graphops.PJ(l1), "b": graphops.PJ(l2)}})
		}
	}
	rep.CasesFiles = cf.Write(filepath.Join(dir, "cases_C13"))
	rep.ShardSize = shardSize
	return rep
}

// safely runs f and returns the recovered panic value, if any.
func safely(f func()) (pv any) {
	defer func() { pv = recover() }()
	f()
	return nil
}
