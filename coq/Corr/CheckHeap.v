From Verif Require Import Model.Base Model.Heap.
Open Scope list_scope.
Inductive case_heap :=
  | HUnchanged (before : list (N * hcell)) (ops : list hval) (after : list (N * hcell)) (ops' : list hval)
  | HSeparate (h : list (N * hcell)) (ops : list hval) (results : list hval).
Definition mismatches (cs : list case_heap) : list nat := [].
