(* Equality and checksums: equivalence, order-insensitivity, what the flat strings cover (C13). *)
From Coq Require Import Lia Permutation.
From Verif Require Import Model.Base Model.Node Model.Graph Model.Flat
  Proofs.ListFacts Proofs.GraphFacts Proofs.OpsWf Proofs.SortFacts Proofs.AttrLaws Proofs.MatchFacts.
Open Scope list_scope.

(* ---- equivalence ------------------------------------------------------------------------- *)
Theorem node_equal_refl a : node_equal a a = true.
Proof. apply String.eqb_refl. Qed.
Theorem node_equal_sym a b : node_equal a b = node_equal b a.
Proof. apply String.eqb_sym. Qed.
Theorem node_equal_trans a b c : node_equal a b = true -> node_equal b c = true -> node_equal a c = true.
Proof. unfold node_equal. rewrite !String.eqb_eq. congruence. Qed.

Theorem edge_equal_refl a : edge_equal a a = true.
Proof. apply String.eqb_refl. Qed.
Theorem edge_equal_sym a b : edge_equal a b = edge_equal b a.
Proof. apply String.eqb_sym. Qed.
Theorem edge_equal_trans a b c : edge_equal a b = true -> edge_equal b c = true -> edge_equal a c = true.
Proof. unfold edge_equal. rewrite !String.eqb_eq. congruence. Qed.

Lemma list_eqb_eq {A} (eqb : A -> A -> bool) :
  (forall x y, eqb x y = true <-> x = y) -> forall l l', list_eqb eqb l l' = true <-> l = l'.
Proof.
  intros H. induction l as [|x r IH]; destruct l' as [|y r']; simpl; split; try congruence; try discriminate.
  - rewrite andb_true_iff, H, IH. intros [-> ->]. reflexivity.
  - intros E. injection E as -> ->. rewrite andb_true_iff, H, IH. auto.
Qed.

Lemma pair_eqb_eq a b : pair_eqb a b = true <-> a = b.
Proof.
  destruct a, b. unfold pair_eqb; simpl. rewrite andb_true_iff, !String.eqb_eq. split.
  - intros [-> ->]. reflexivity.
  - intros E. injection E as -> ->. auto.
Qed.

Section Sha.
  Variable sha : string -> string.

  Lemma nl_equal_key a b : nl_equal sha a b = true <-> nl_key sha a = nl_key sha b.
  Proof.
    unfold nl_equal, nl_key. cbv beta iota.
    rewrite !andb_true_iff, !Nat.eqb_eq. unfold strs_eqb.
    rewrite !(list_eqb_eq String.eqb String.eqb_eq), (list_eqb_eq pair_eqb pair_eqb_eq).
    split.
    - intros [[[[[H1 H2] H3] H4] H5] H6]. rewrite H1, H2, H3, H4, H5, H6. reflexivity.
    - intros E. injection E as H1 H2 H3 H4 H5 H6. auto 10.
  Qed.

  Theorem nl_equal_refl a : nl_equal sha a a = true.
  Proof. apply nl_equal_key. reflexivity. Qed.
  Theorem nl_equal_sym a b : nl_equal sha a b = nl_equal sha b a.
  Proof.
    destruct (nl_equal sha a b) eqn:E1, (nl_equal sha b a) eqn:E2; try reflexivity.
    - apply nl_equal_key in E1. symmetry in E1. apply nl_equal_key in E1. congruence.
    - apply nl_equal_key in E2. symmetry in E2. apply nl_equal_key in E2. congruence.
  Qed.
  Theorem nl_equal_trans a b c : nl_equal sha a b = true -> nl_equal sha b c = true -> nl_equal sha a c = true.
  Proof. rewrite !nl_equal_key. congruence. Qed.

  (* agreement with checksums, under injectivity of the hash on the strings compared *)
  Hypothesis sha_injective : forall x y, sha x = sha y -> x = y.

  Theorem equal_iff_checksum a b : node_equal a b = true <-> checksum sha a = checksum sha b.
  Proof.
    unfold node_equal, checksum. rewrite String.eqb_eq. split; [congruence|apply sha_injective].
  Qed.
End Sha.

(* ---- order-insensitivity ---------------------------------------------------------------------- *)
Lemma Permutation_flat_map_pointwise {A B} (g h : A -> list B) l :
  (forall x, Permutation (g x) (h x)) -> Permutation (flat_map g l) (flat_map h l).
Proof.
  intros H. induction l as [|x r IH]; simpl; [constructor|]. apply Permutation_app; auto.
Qed.

Lemma slice_pair_perm name l l' : Permutation l l' -> slice_pair name l = slice_pair name l'.
Proof.
  intros H. unfold slice_pair. rewrite (ssort_perm_eq l l' H).
  destruct l as [|x r]; destruct l' as [|y r']; try reflexivity.
  - apply Permutation_nil in H. discriminate.
  - apply Permutation_sym, Permutation_nil in H. discriminate.
Qed.

(* b is a with its set-valued attributes reordered *)
Definition node_reordered (a b : node) : Prop :=
  n_id a = n_id b /\ n_type a = n_type b /\ n_name a = n_name b /\ n_version a = n_version b /\
  n_file_name a = n_file_name b /\ n_url_home a = n_url_home b /\ n_url_download a = n_url_download b /\
  Permutation (n_licenses a) (n_licenses b) /\
  n_license_concluded a = n_license_concluded b /\ n_license_comments a = n_license_comments b /\
  n_copyright a = n_copyright b /\ n_source_info a = n_source_info b /\ n_comment a = n_comment b /\
  n_summary a = n_summary b /\ n_description a = n_description b /\
  Permutation (n_attribution a) (n_attribution b) /\
  Permutation (n_suppliers a) (n_suppliers b) /\ Permutation (n_originators a) (n_originators b) /\
  n_release_date a = n_release_date b /\ n_build_date a = n_build_date b /\
  n_valid_until_date a = n_valid_until_date b /\
  Permutation (n_external_references a) (n_external_references b) /\
  Permutation (n_file_types a) (n_file_types b) /\
  n_identifiers a = n_identifiers b /\ n_hashes a = n_hashes b /\
  Permutation (n_primary_purpose a) (n_primary_purpose b).

Lemma field_pairs_reordered a b f : node_reordered a b -> Permutation (field_pairs a f) (field_pairs b f).
Proof.
  intros [H1 [H2 [H3 [H4 [H5 [H6 [H7 [H8 [H9 [H10 [H11 [H12 [H13 [H14 [H15 [H16 [H17 [H18 [H19 [H20 [H21 [H22 [H23 [H24 [H25 H26]]]]]]]]]]]]]]]]]]]]]]]]].
  destruct f; simpl;
    rewrite ?H1, ?H2, ?H3, ?H4, ?H5, ?H6, ?H7, ?H9, ?H10, ?H11, ?H12, ?H13, ?H14, ?H15, ?H19, ?H20, ?H21, ?H24, ?H25;
    try apply Permutation_refl.
  - rewrite (slice_pair_perm _ _ _ H8). apply Permutation_refl.
  - rewrite (slice_pair_perm _ _ _ H16). apply Permutation_refl.
  - apply Permutation_map. exact H17.
  - apply Permutation_map. exact H18.
  - apply Permutation_map. exact H22.
  - rewrite (slice_pair_perm _ _ _ H23). apply Permutation_refl.
  - rewrite (slice_pair_perm _ _ _ (Permutation_map dec H26)). apply Permutation_refl.
Qed.

Theorem node_flat_reordered a b : node_reordered a b -> node_flat a = node_flat b.
Proof.
  intros H. unfold node_flat. f_equal. apply ssort_perm_eq. unfold node_pairs.
  apply Permutation_flat_map_pointwise. intros f. apply field_pairs_reordered. exact H.
Qed.

Theorem node_equal_reordered a b : node_reordered a b -> node_equal a b = true.
Proof. intros H. unfold node_equal. rewrite (node_flat_reordered a b H). apply String.eqb_refl. Qed.

Theorem edge_flat_reordered a b :
  e_from a = e_from b -> e_type a = e_type b -> Permutation (e_to a) (e_to b) -> edge_flat a = edge_flat b.
Proof. intros H1 H2 H3. unfold edge_flat. rewrite H1, H2, (ssort_perm_eq _ _ H3). reflexivity. Qed.

Lemma last_node_unique i ns n : NoDup (map n_id ns) -> In n ns -> n_id n = i -> last_node i ns = Some n.
Proof.
  intros Hnd Hin Hid. unfold last_node. apply first_node_unique; [|apply -> in_rev; exact Hin|exact Hid].
  rewrite map_rev. apply NoDup_rev. exact Hnd.
Qed.

Section ShaPerm.
  Variable sha : string -> string.

  Lemma id_sums_perm a b :
    Permutation (nl_nodes a) (nl_nodes b) -> NoDup (ids a) -> id_sums sha a = id_sums sha b.
  Proof.
    intros Hp Hnd. unfold id_sums.
    assert (Hnd' : NoDup (ids b)).
    { unfold ids. eapply Permutation_NoDup; [apply Permutation_map; exact Hp|exact Hnd]. }
    assert (Hs : ssort (dedup (ids a)) = ssort (dedup (ids b))).
    { rewrite !dedup_id by assumption. apply ssort_perm_eq. unfold ids. apply Permutation_map. exact Hp. }
    rewrite <- Hs. apply map_ext_in. intros i Hi.
    assert (Hia : In i (ids a)).
    { apply dedup_In. eapply Permutation_in; [apply Permutation_sym, ssort_perm|exact Hi]. }
    apply in_map_iff in Hia as [n [Hn Hin]].
    rewrite (last_node_unique i (nl_nodes a) n Hnd Hin Hn).
    rewrite (last_node_unique i (nl_nodes b) n Hnd' (Permutation_in n Hp Hin) Hn). reflexivity.
  Qed.

  (* NodeList.Equal does not depend on the order of nodes, edges or root elements *)
  Theorem nl_equal_reordered a b :
    Permutation (nl_nodes a) (nl_nodes b) -> Permutation (nl_edges a) (nl_edges b) ->
    Permutation (nl_root_elements a) (nl_root_elements b) -> NoDup (ids a) ->
    nl_equal sha a b = true.
  Proof.
    intros Hn He Hr Hnd. apply nl_equal_key. unfold nl_key.
    rewrite (Permutation_length Hn), (Permutation_length He), (Permutation_length Hr).
    rewrite (ssort_perm_eq _ _ Hr), (ssort_perm_eq _ _ (Permutation_map edge_flat He)).
    rewrite (id_sums_perm a b Hn Hnd). reflexivity.
  Qed.
End ShaPerm.

(* ---- what the flat string covers ------------------------------------------------------------------ *)
Lemma sapp_inj_l p s s' : p +++ s = p +++ s' -> s = s'.
Proof. unfold sapp. induction p as [|c p IH]; simpl; intros H; [exact H|]. injection H as H. auto. Qed.

Lemma scalar_pair_inj name s s' : scalar_pair name s = scalar_pair name s' -> s = s'.
Proof.
  unfold scalar_pair. destruct (String.eqb_spec s ""), (String.eqb_spec s' ""); try congruence; try discriminate.
  intros H. injection H as H. apply sapp_inj_l in H. apply (sapp_inj_l ":") in H. exact H.
Qed.

(* scalar attributes: equal pair strings only for equal values *)
Definition scalar_field (f : nfield) : bool :=
  match f with
  | NF_id | NF_name | NF_version | NF_file_name | NF_url_home | NF_url_download | NF_license_concluded
  | NF_license_comments | NF_copyright | NF_source_info | NF_comment | NF_summary | NF_description => true
  | _ => false
  end.

Theorem scalar_field_discriminates a b f :
  scalar_field f = true -> field_pairs a f = field_pairs b f -> nget f a = nget f b.
Proof.
  destruct f; simpl; try discriminate; intros _ H; apply scalar_pair_inj in H; congruence.
Qed.

(* the rendering of an external reference changes when its hashes change from none to some *)
Theorem extref_hashes_covered x :
  x_hashes x <> [] ->
  extref_flat x <> extref_flat {| x_url := x_url x; x_comment := x_comment x; x_authority := x_authority x;
                                  x_hashes := []; x_type := x_type x |}.
Proof.
  intros Hne H. unfold extref_flat in H. cbn [x_url x_comment x_authority x_hashes x_type kvsort fold_right map sconcat] in H.
  repeat (apply sapp_inj_l in H).
  destruct (x_hashes x) as [|kv r]; [congruence|].
  assert (Hk : kvsort (kv :: r) <> []).
  { simpl. destruct (kvsort r); simpl; [discriminate|]. destruct (Z.leb (fst kv) (fst p)); discriminate. }
  destruct (kvsort (kv :: r)) as [|q r']; [congruence|]. simpl in H. unfold sapp in H. simpl in H. discriminate.
Qed.
