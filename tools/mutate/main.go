// Command mutate enumerates and applies single syntactic changes to one Go file:
//
//	mutate -file f.go -list            prints the number of mutation sites and their descriptions
//	mutate -file f.go -k 17 -out g.go  writes the file with the 17th change applied
//
// Operators: negate an if condition; swap == and !=, < and <=, > and >=, && and ||; swap continue
// and break (inside for loops, not switch); delete an expression statement, an assignment, an
// inc/dec or an else branch; return early is not generated.  Test files are not touched.
package main

import (
	"bytes"
	"flag"
	"fmt"
	"go/ast"
	"go/format"
	"go/parser"
	"go/token"
	"os"
)

type site struct {
	desc  string
	apply func()
}

func main() {
	file := flag.String("file", "", "")
	list := flag.Bool("list", false, "")
	k := flag.Int("k", -1, "")
	out := flag.String("out", "", "")
	flag.Parse()
	fset := token.NewFileSet()
	f, err := parser.ParseFile(fset, *file, nil, parser.ParseComments)
	if err != nil {
		fmt.Fprintln(os.Stderr, err)
		os.Exit(2)
	}
	var sites []site
	pos := func(n ast.Node) string { return fset.Position(n.Pos()).String() }
	swap := map[token.Token]token.Token{token.EQL: token.NEQ, token.NEQ: token.EQL, token.LSS: token.LEQ, token.LEQ: token.LSS,
		token.GTR: token.GEQ, token.GEQ: token.GTR, token.LAND: token.LOR, token.LOR: token.LAND}
	var inLoop int
	var walkBlock func(b *ast.BlockStmt)
	var visit func(n ast.Node) bool
	visit = func(n ast.Node) bool {
		switch x := n.(type) {
		case *ast.FuncDecl:
			if x.Body == nil {
				return false
			}
		case *ast.IfStmt:
			x0 := x
			sites = append(sites, site{pos(x) + ": if condition negated", func() { x0.Cond = &ast.UnaryExpr{Op: token.NOT, X: &ast.ParenExpr{X: x0.Cond}} }})
			if x.Else != nil {
				sites = append(sites, site{pos(x) + ": else branch removed", func() { x0.Else = nil }})
			}
		case *ast.BinaryExpr:
			if t, ok := swap[x.Op]; ok {
				x0 := x
				sites = append(sites, site{fmt.Sprintf("%s: %s replaced by %s", pos(x), x.Op, t), func() { x0.Op = t }})
			}
		case *ast.BranchStmt:
			if x.Label == nil && (x.Tok == token.CONTINUE || x.Tok == token.BREAK) && inLoop > 0 {
				x0 := x
				t := token.BREAK
				if x.Tok == token.BREAK {
					t = token.CONTINUE
				}
				sites = append(sites, site{fmt.Sprintf("%s: %s replaced by %s", pos(x), x.Tok, t), func() { x0.Tok = t }})
			}
		case *ast.ForStmt, *ast.RangeStmt:
			inLoop++
			var body *ast.BlockStmt
			if fs, ok := x.(*ast.ForStmt); ok {
				body = fs.Body
			} else {
				body = x.(*ast.RangeStmt).Body
			}
			walkBlock(body)
			ast.Inspect(body, visit)
			inLoop--
			return false
		case *ast.SwitchStmt, *ast.TypeSwitchStmt, *ast.SelectStmt:
			// break inside a switch leaves the switch: do not swap it
			save := inLoop
			inLoop = 0
			var body *ast.BlockStmt
			switch s := x.(type) {
			case *ast.SwitchStmt:
				body = s.Body
			case *ast.TypeSwitchStmt:
				body = s.Body
			case *ast.SelectStmt:
				body = s.Body
			}
			ast.Inspect(body, visit)
			inLoop = save
			return false
		case *ast.BlockStmt:
			walkBlock(x)
		case *ast.CaseClause:
			bs := &x.Body
			for i := range *bs {
				i := i
				if deletable((*bs)[i]) {
					st := (*bs)[i]
					sites = append(sites, site{pos(st) + ": statement removed", func() { (*bs)[i] = &ast.EmptyStmt{Implicit: false} }})
				}
			}
		}
		return true
	}
	walkBlock = func(b *ast.BlockStmt) {
		if b == nil {
			return
		}
		for i := range b.List {
			i := i
			if deletable(b.List[i]) {
				st := b.List[i]
				sites = append(sites, site{pos(st) + ": statement removed", func() { b.List[i] = &ast.EmptyStmt{Implicit: false} }})
			}
		}
	}
	ast.Inspect(f, visit)
	// de-duplicate (blocks of loops are visited twice)
	seen := map[string]bool{}
	var uniq []site
	for _, s := range sites {
		if !seen[s.desc] {
			seen[s.desc] = true
			uniq = append(uniq, s)
		}
	}
	sites = uniq
	if *list {
		fmt.Println(len(sites))
		for i, s := range sites {
			fmt.Printf("%d\t%s\n", i, s.desc)
		}
		return
	}
	if *k < 0 || *k >= len(sites) {
		fmt.Fprintln(os.Stderr, "no such site")
		os.Exit(2)
	}
	sites[*k].apply()
	var buf bytes.Buffer
	if err := format.Node(&buf, fset, f); err != nil {
		fmt.Fprintln(os.Stderr, err)
		os.Exit(2)
	}
	if err := os.WriteFile(*out, buf.Bytes(), 0o644); err != nil {
		fmt.Fprintln(os.Stderr, err)
		os.Exit(2)
	}
	fmt.Println(sites[*k].desc)
}

// deletable: statements whose removal keeps the file compiling most of the time
func deletable(s ast.Stmt) bool {
	switch x := s.(type) {
	case *ast.ExprStmt:
		return true
	case *ast.IncDecStmt:
		return true
	case *ast.AssignStmt:
		return x.Tok != token.DEFINE
	}
	return false
}
