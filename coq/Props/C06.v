(* C06 — format detection is correct, layout-independent and non-consuming. Statements only;
   proofs in Proofs/SniffFacts.v. Decoding the bytes into the top-level declaration is
   encoding/json's part (layout independence lives there and is validated by the harness with
   re-encodings); the decision on the declaration is what is proved. *)
From Verif Require Import Model.Base Model.Match Model.Sniff Gen.Tables Proofs.SniffFacts.
Open Scope list_scope.

(* the writer's output is detected as exactly the format written, for every output format that
   can also be read: SPDX 2.3 and CycloneDX 1.3, 1.4, 1.5 JSON *)
Theorem C06_detects_writer_output : writer_agrees = true.
Proof. exact sniff_writer_output. Qed.
Print Assumptions C06_detects_writer_output.

(* a format is reported only when the declaration says so: the reported constant's Type(),
   Version() and Encoding() (generated from the code) agree with the declaration *)
Theorem C06_json_sound : forall bom spec spdx f,
  sniff_json (bom, spec, spdx) = Ok f ->
  exists ty ver, fmt_info f = Some (ty, ver, "json") /\
    ((is_cdx bom = true /\ ty = "cyclonedx" /\ spec = ver) \/
     (is_cdx bom = false /\ ty = "spdx" /\ spdx = ("SPDX-" ++ ver)%string)).
Proof. exact sniff_json_sound. Qed.
Print Assumptions C06_json_sound.

Theorem C06_json_error_otherwise : forall bom spec spdx,
  sniff_json (bom, spec, spdx) = Err <->
  (is_cdx bom = true /\ spec <> "1.3" /\ spec <> "1.4" /\ spec <> "1.5") \/
  (is_cdx bom = false /\ spdx <> "SPDX-2.2" /\ spdx <> "SPDX-2.3").
Proof. exact sniff_json_error. Qed.
Print Assumptions C06_json_error_otherwise.

Theorem C06_tag_value_sound : forall lines f,
  sniff_lines lines = Ok f ->
  exists l ver, In l lines /\ contains "SPDXVersion:" l = true /\ contains ("SPDX-" ++ ver)%string l = true /\
                fmt_info f = Some ("spdx", ver, "text").
Proof. exact sniff_lines_sound. Qed.
Print Assumptions C06_tag_value_sound.

Theorem C06_total : forall d lines, (exists f, sniff d lines = Ok f) \/ sniff d lines = Err.
Proof. exact sniff_total. Qed.
Print Assumptions C06_total.

Theorem C06_stream_left_at_start : forall s d lines, s_pos (snd (sniff_reader s d lines)) = 0.
Proof. exact sniff_rewinds. Qed.
Print Assumptions C06_stream_left_at_start.

Example C06_nonvacuous :
  sniff (Some ("CycloneDX", "1.5", "")) [] = Ok F_CDX15JSON /\
  sniff (Some ("cYcLoNeDx", "1.2", "")) [] = Err /\
  sniff None ["# comment"; "SPDXVersion: SPDX-2.3"] = Ok F_SPDX23TV /\
  sniff None ["SPDXVersion: nonsense"; """SPDX-2.3"""] = Err.
Proof. repeat split; vm_compute; reflexivity. Qed.
