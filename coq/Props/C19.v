(* C19 — the file-system store round-trips, isolates keys, stays confined, reports errors.
   Statements only; proofs in Proofs/StoreFacts.v.  The protobuf codec, the entry naming
   (hex SHA-256 of the identifier) and the documents are parameters; what is assumed of them is
   spelled out as premises: decode(encode d) = d, and naming is injective. *)
From Verif Require Import Model.Base Model.Store Proofs.StoreFacts.
Open Scope list_scope.

Section C19.
  Variable D : Type.
  Variable doc_id : D -> option string.
  Variable marshal : D -> string.
  Variable unmarshal : string -> option D.
  Variable fname : string -> string.
  Hypothesis codec_roundtrip : forall d, unmarshal (marshal d) = Some d.
  Hypothesis fname_injective : forall i j, fname i = fname j -> i = j.

  Theorem C19_store_retrieve : forall s d nc s' i,
    store D doc_id marshal fname s (Some d) nc = (Ok tt, s') -> doc_id d = Some i ->
    retrieve D doc_id unmarshal fname s' true i = Ok d.
  Proof. exact (store_retrieve D doc_id marshal unmarshal fname codec_roundtrip). Qed.

  Theorem C19_keys_isolated : forall s d nc r s' j,
    store D doc_id marshal fname s d nc = (r, s') -> key_of D doc_id d <> Some j ->
    retrieve D doc_id unmarshal fname s' true j = retrieve D doc_id unmarshal fname s true j.
  Proof. exact (keys_isolated D doc_id marshal unmarshal fname fname_injective). Qed.

  Theorem C19_noclobber_preserves : forall s d s' r i old,
    store D doc_id marshal fname s (Some d) true = (r, s') -> doc_id d = Some i ->
    retrieve D doc_id unmarshal fname s true i = Ok old -> r = Err /\ s' = s.
  Proof. exact (noclobber_preserves D doc_id marshal unmarshal fname). Qed.

  Theorem C19_missing_directory_created_then_usable : forall d nc i,
    doc_id d = Some i -> i <> "" ->
    exists s', store D doc_id marshal fname (DAbsent true) (Some d) nc = (Ok tt, s') /\
               retrieve D doc_id unmarshal fname s' true i = Ok d.
  Proof. exact (missing_directory_created_and_usable D doc_id marshal unmarshal fname codec_roundtrip). Qed.

  (* error returns only: no panic, no process exit, no document other than the one asked for *)
  Theorem C19_retrieve_total : forall s p i,
    retrieve D doc_id unmarshal fname s p i <> Panic /\ retrieve D doc_id unmarshal fname s p i <> Fatal.
  Proof. exact (retrieve_total D doc_id unmarshal fname). Qed.

  Theorem C19_retrieve_right_document : forall s p i d,
    retrieve D doc_id unmarshal fname s p i = Ok d -> doc_id d = Some i /\ i <> "".
  Proof. exact (retrieve_right_document D doc_id unmarshal fname). Qed.

  Theorem C19_retrieve_errors : forall fs i,
    (Store.lookup (fname i) fs = None -> retrieve D doc_id unmarshal fname (DDir true fs) true i = Err) /\
    (forall f, Store.lookup (fname i) fs = Some f -> f_readable f = false ->
               retrieve D doc_id unmarshal fname (DDir true fs) true i = Err) /\
    (forall f, Store.lookup (fname i) fs = Some f -> unmarshal (f_data f) = None ->
               retrieve D doc_id unmarshal fname (DDir true fs) true i = Err).
  Proof.
    intros fs i. split; [apply retrieve_unknown|]. split; [apply retrieve_unreadable|apply retrieve_corrupted].
  Qed.

  Theorem C19_store_without_identifier : forall s d nc,
    key_of D doc_id d = None \/ key_of D doc_id d = Some "" -> fst (store D doc_id marshal fname s d nc) = Err.
  Proof. exact (store_without_identifier D doc_id marshal fname). Qed.

  (* any sequence of store and retrieve calls, both no-clobber settings: the directory behaves like
     a map from identifiers to documents *)
  Theorem C19_sequences_refine_a_map : forall os s m,
    represents D doc_id marshal fname s m ->
    fst (srun D doc_id marshal unmarshal fname s os) = fst (spec_run D doc_id m os) /\
    represents D doc_id marshal fname (snd (srun D doc_id marshal unmarshal fname s os)) (snd (spec_run D doc_id m os)).
  Proof. exact (store_refines_map D doc_id marshal unmarshal fname codec_roundtrip fname_injective). Qed.

  Theorem C19_fresh_directory_is_the_empty_map : represents D doc_id marshal fname (DDir true []) [].
  Proof. exact (empty_directory_represents_empty_map D doc_id marshal fname). Qed.
End C19.

Print Assumptions C19_store_retrieve.
Print Assumptions C19_keys_isolated.
Print Assumptions C19_noclobber_preserves.
Print Assumptions C19_missing_directory_created_then_usable.
Print Assumptions C19_retrieve_total.
Print Assumptions C19_retrieve_right_document.
Print Assumptions C19_retrieve_errors.
Print Assumptions C19_store_without_identifier.
Print Assumptions C19_sequences_refine_a_map.

(* confinement: the only names the store ever creates in the directory are fname i (and, during a
   store, one temporary name); the model's directory state has no other way to grow. What fname
   looks like — 64 hex digits plus ".protobom", no separator — is a fact about SHA-256 formatting,
   checked on every identifier the harness uses. *)
Theorem C19_only_hashed_names : forall D doc_id marshal fname s d nc r u fs n f,
  store D doc_id marshal fname s d nc = (r, DDir u fs) -> Store.lookup n fs = Some f ->
  (exists i, n = fname i) \/ (exists u0 fs0, s = DDir u0 fs0 /\ Store.lookup n fs0 = Some f).
Proof.
  intros D doc_id marshal fname s d nc r u fs n f H Hl.
  unfold store in H.
  destruct s as [[|]| |u0 fs0]; cbn [fst snd] in H.
  - destruct d as [x|]; [|inversion H; subst; discriminate].
    destruct (doc_id x) as [i|]; [|inversion H; subst; discriminate].
    destruct (String.eqb i ""); [inversion H; subst; discriminate|].
    simpl in H. rewrite andb_false_r in H. inversion H; subst. left. exists i.
    unfold Store.lookup, put in Hl. simpl in Hl. destruct (String.eqb_spec n (fname i)); [assumption|discriminate].
  - inversion H.
  - inversion H.
  - assert (Hput : forall i x, Store.lookup n (put (fname i) x fs0) = Some f -> n = fname i \/ Store.lookup n fs0 = Some f).
    { intros i x Hp. unfold Store.lookup, put in Hp. simpl in Hp. destruct (String.eqb_spec n (fname i)) as [E|E]; [left; exact E|right].
      unfold Store.lookup. rewrite <- Hp. symmetry. apply (sassoc_filter_ne (fname i) n fs0 E). }
    destruct d as [x|]; [|inversion H; subst; right; eauto].
    destruct (doc_id x) as [i|]; [|inversion H; subst; right; eauto].
    destruct (String.eqb i ""); [inversion H; subst; right; eauto|].
    destruct (nc && _); [inversion H; subst; right; eauto|].
    destruct u0; [|inversion H; subst; right; eauto].
    inversion H; subst. destruct (Hput i _ Hl) as [E|E]; [left; eauto|right; eauto].
Qed.
Print Assumptions C19_only_hashed_names.

(* non-vacuity: the premises are satisfiable and a non-trivial sequence runs *)
Example C19_nonvacuous :
  let doc_id := fun z : Z => if Z.eqb z 0 then None else Some (dec z) in
  let marshal := dec in
  let unmarshal := fun s => if String.eqb s "1" then Some 1 else if String.eqb s "2" then Some 2 else None in
  let fname := fun i : string => i in
  fst (srun Z doc_id marshal unmarshal fname (DAbsent true)
         [SStore Z (Some 1) false; SStore Z (Some 2) true; SStore Z (Some 1) true; SRetrieve Z "2"; SRetrieve Z "9"; SStore Z (Some 0) false])
  = [OStore Z (Ok tt); OStore Z (Ok tt); OStore Z Err; ORetrieve Z (Ok 2); ORetrieve Z Err; OStore Z Err].
Proof. vm_compute. reflexivity. Qed.
