(* The file-system store round-trips, isolates keys, reports errors (C19) and is crash-atomic (C20). *)
From Coq Require Import Lia.
From Verif Require Import Model.Base Model.Store Proofs.ListFacts.
Open Scope list_scope.

Section Facts.
  Variable D : Type.
  Variable doc_id : D -> option string.
  Variable marshal : D -> string.
  Variable unmarshal : string -> option D.
  Variable fname : string -> string.

  (* what is assumed of the protobuf codec and of SHA-256 file naming *)
  Hypothesis codec_roundtrip : forall d, unmarshal (marshal d) = Some d.
  Hypothesis fname_injective : forall i j, fname i = fname j -> i = j.

  Notation store := (store D doc_id marshal fname).
  Notation retrieve := (retrieve D doc_id unmarshal fname).
  Notation lookup := (lookup).

  Lemma lookup_put_same n f fs : lookup n (put n f fs) = Some f.
  Proof. unfold lookup, put. simpl. rewrite String.eqb_refl. reflexivity. Qed.

  Lemma sassoc_filter_ne {A} n m (fs : list (string * A)) :
    m <> n -> sassoc m (filter (fun kv => negb (String.eqb (fst kv) n)) fs) = sassoc m fs.
  Proof.
    intros Hne. induction fs as [|[k v] r IH]; simpl; [reflexivity|].
    destruct (String.eqb_spec k n) as [->|Hk]; simpl.
    - destruct (String.eqb_spec m n); [congruence|]. exact IH.
    - destruct (String.eqb m k); [reflexivity|exact IH].
  Qed.

  Lemma lookup_put_other n m f fs : m <> n -> lookup m (put n f fs) = lookup m fs.
  Proof.
    intros Hne. unfold lookup, put. simpl. destruct (String.eqb_spec m n); [congruence|].
    apply sassoc_filter_ne. assumption.
  Qed.

  (* ---- C19: single calls ------------------------------------------------------------------- *)
  Lemma retrieve_after_put fs d i :
    doc_id d = Some i -> i <> "" ->
    retrieve (DDir true (put (fname i) (mk_file (marshal d) true) fs)) true i = Ok d.
  Proof.
    intros Hid Hne. unfold Store.retrieve. simpl. destruct (String.eqb_spec i ""); [congruence|].
    rewrite lookup_put_same. simpl. rewrite codec_roundtrip, Hid, String.eqb_refl. reflexivity.
  Qed.

  Theorem store_retrieve s d nc s' i :
    store s (Some d) nc = (Ok tt, s') -> doc_id d = Some i -> retrieve s' true i = Ok d.
  Proof.
    intros H Hid. unfold Store.store in H.
    destruct s as [[|]| |u fs]; cbn [fst snd] in H.
    - rewrite Hid in H. destruct (String.eqb_spec i "") as [E|Hne]; [discriminate|].
      simpl in H. rewrite andb_false_r in H. injection H as <-. apply retrieve_after_put; assumption.
    - discriminate.
    - discriminate.
    - rewrite Hid in H. destruct (String.eqb_spec i "") as [E|Hne]; [discriminate|].
      destruct (nc && match Store.lookup (fname i) fs with Some _ => u | None => false end); [discriminate|].
      destruct u; [|discriminate]. injection H as <-. apply retrieve_after_put; assumption.
  Qed.

  (* the identifier a store call writes under, if any *)
  Definition key_of (d : option D) : option string :=
    match d with Some x => doc_id x | None => None end.

  (* the three ways a store call can change the directory *)
  Lemma store_state s d nc r s' :
    store s d nc = (r, s') ->
    s' = s \/
    (s = DAbsent true /\ s' = DDir true []) \/
    (exists i x u fs, key_of d = Some i /\
        ((s = DDir u fs) \/ (s = DAbsent true /\ fs = [] /\ u = true)) /\
        s' = DDir u (put (fname i) x fs)).
  Proof.
    unfold Store.store. intros H.
    destruct s as [[|]| |u fs]; cbn [fst snd] in H.
    - destruct d as [x|]; [|inversion H; right; left; auto].
      destruct (doc_id x) as [i|] eqn:Ei; [|inversion H; right; left; auto].
      destruct (String.eqb i ""); [inversion H; right; left; auto|].
      simpl in H. rewrite andb_false_r in H. inversion H. right. right.
      exists i, (mk_file (marshal x) true), true, []. simpl. rewrite Ei. split; [reflexivity|]. split; [right; auto|reflexivity].
    - inversion H. left. reflexivity.
    - inversion H. left. reflexivity.
    - destruct d as [x|]; [|inversion H; left; reflexivity].
      destruct (doc_id x) as [i|] eqn:Ei; [|inversion H; left; reflexivity].
      destruct (String.eqb i ""); [inversion H; left; reflexivity|].
      destruct (nc && match Store.lookup (fname i) fs with Some _ => u | None => false end); [inversion H; left; reflexivity|].
      destruct u; [|inversion H; left; reflexivity].
      inversion H. right. right. exists i, (mk_file (marshal x) true), true, fs. simpl. rewrite Ei. split; [reflexivity|]. split; [left; reflexivity|reflexivity].
  Qed.

  Theorem keys_isolated s d nc r s' j :
    store s d nc = (r, s') -> key_of d <> Some j -> retrieve s' true j = retrieve s true j.
  Proof.
    intros H Hk. apply store_state in H as [->|[[-> ->]|[i [x [u [fs [Hi [Hs ->]]]]]]]].
    - reflexivity.
    - unfold Store.retrieve. simpl. destruct (String.eqb j ""); reflexivity.
    - assert (Hl : Store.lookup (fname j) (put (fname i) x fs) = Store.lookup (fname j) fs).
      { apply lookup_put_other. intros E. apply fname_injective in E. subst. congruence. }
      destruct Hs as [->|[-> [-> ->]]]; unfold Store.retrieve; simpl; destruct (String.eqb j ""); try reflexivity.
      + destruct u; [|reflexivity]. rewrite Hl. reflexivity.
      + rewrite Hl. reflexivity.
  Qed.

  (* with NoClobber an existing entry is neither replaced nor damaged *)
  Theorem noclobber_preserves s d s' r i old :
    store s (Some d) true = (r, s') -> doc_id d = Some i -> retrieve s true i = Ok old ->
    r = Err /\ s' = s.
  Proof.
    intros H Hid Hold. unfold Store.retrieve in Hold. cbn [negb] in Hold.
    destruct (String.eqb_spec i "") as [E|Hne]; [discriminate|].
    destruct s as [[|]| |u fs]; try discriminate. destruct u; [|discriminate].
    destruct (Store.lookup (fname i) fs) as [f|] eqn:El; [|discriminate].
    unfold Store.store in H. cbn [fst snd] in H. rewrite Hid in H.
    destruct (String.eqb_spec i ""); [congruence|]. rewrite El in H. simpl in H.
    inversion H. auto.
  Qed.

  (* errors are error returns: never a panic or a process exit, never a document other than the one asked for *)
  Theorem retrieve_total s p i : retrieve s p i <> Panic /\ retrieve s p i <> Fatal.
  Proof.
    unfold Store.retrieve. destruct (negb p); [split; discriminate|]. destruct (String.eqb i ""); [split; discriminate|].
    destruct s as [| |[|] fs]; try (split; discriminate).
    destruct (Store.lookup (fname i) fs) as [f|]; [|split; discriminate].
    destruct (f_readable f); [|split; discriminate].
    destruct (unmarshal (f_data f)) as [d|]; [|split; discriminate].
    destruct (doc_id d) as [j|]; [|split; discriminate]. destruct (String.eqb j i); split; discriminate.
  Qed.

  Theorem retrieve_right_document s p i d : retrieve s p i = Ok d -> doc_id d = Some i /\ i <> "".
  Proof.
    unfold Store.retrieve. destruct (negb p); [discriminate|]. destruct (String.eqb_spec i ""); [discriminate|].
    destruct s as [| |[|] fs]; try discriminate.
    destruct (Store.lookup (fname i) fs) as [f|]; [|discriminate].
    destruct (f_readable f); [|discriminate].
    destruct (unmarshal (f_data f)) as [x|]; [|discriminate].
    destruct (doc_id x) as [j|] eqn:Ej; [|discriminate]. destruct (String.eqb_spec j i); [|discriminate].
    intros H. injection H as <-. subst. auto.
  Qed.

  Theorem retrieve_unknown fs i : Store.lookup (fname i) fs = None -> retrieve (DDir true fs) true i = Err.
  Proof. intros H. unfold Store.retrieve. simpl. destruct (String.eqb i ""); [reflexivity|]. rewrite H. reflexivity. Qed.

  Theorem retrieve_unreadable fs i f :
    Store.lookup (fname i) fs = Some f -> f_readable f = false -> retrieve (DDir true fs) true i = Err.
  Proof. intros H Hr. unfold Store.retrieve. simpl. destruct (String.eqb i ""); [reflexivity|]. rewrite H, Hr. reflexivity. Qed.

  Theorem retrieve_corrupted fs i f :
    Store.lookup (fname i) fs = Some f -> unmarshal (f_data f) = None -> retrieve (DDir true fs) true i = Err.
  Proof.
    intros H Hu. unfold Store.retrieve. simpl. destruct (String.eqb i ""); [reflexivity|]. rewrite H, Hu.
    destruct (f_readable f); reflexivity.
  Qed.

  Theorem store_without_identifier s d nc :
    key_of d = None \/ key_of d = Some "" -> fst (store s d nc) = Err.
  Proof.
    unfold Store.store. intros H. destruct s as [[|]| |u fs]; simpl; try reflexivity;
      destruct d as [x|]; simpl in *; try reflexivity;
      destruct H as [H|H]; rewrite H; reflexivity.
  Qed.

  Theorem missing_directory_created_and_usable d nc i :
    doc_id d = Some i -> i <> "" ->
    exists s', store (DAbsent true) (Some d) nc = (Ok tt, s') /\ retrieve s' true i = Ok d.
  Proof.
    intros Hid Hne. unfold Store.store. cbn [fst snd]. rewrite Hid. destruct (String.eqb_spec i ""); [congruence|].
    simpl. rewrite andb_false_r. eexists. split; [reflexivity|]. apply retrieve_after_put; assumption.
  Qed.

  (* ---- C19: any sequence of store and retrieve calls behaves like a map from identifiers to documents *)
  Definition amap := list (string * D).

  Definition spec_step (m : amap) (o : sop D) : sout D * amap :=
    match o with
    | SStore _ d nc =>
        match key_of d, d with
        | Some i, Some x =>
            if String.eqb i "" then (OStore D Err, m)
            else if nc && match sassoc i m with Some _ => true | None => false end then (OStore D Err, m)
            else (OStore D (Ok tt), (i, x) :: m)
        | _, _ => (OStore D Err, m)
        end
    | SRetrieve _ i =>
        (ORetrieve D (if String.eqb i "" then Err else match sassoc i m with Some d => Ok d | None => Err end), m)
    end.

  Fixpoint spec_run (m : amap) (os : list (sop D)) : list (sout D) * amap :=
    match os with
    | [] => ([], m)
    | o :: r => let '(x, m1) := spec_step m o in let '(xs, m2) := spec_run m1 r in (x :: xs, m2)
    end.

  (* the directory holds exactly the encodings of the map's documents, under their hashed names *)
  Definition represents (s : dirstate) (m : amap) : Prop :=
    exists fs, s = DDir true fs /\
      (forall i, Store.lookup (fname i) fs = option_map (fun d => mk_file (marshal d) true) (sassoc i m)) /\
      (forall i d, sassoc i m = Some d -> doc_id d = Some i).

  Lemma represents_retrieve s m i :
    represents s m -> i <> "" ->
    retrieve s true i = match sassoc i m with Some d => Ok d | None => Err end.
  Proof.
    intros [fs [-> [Hl Hd]]] Hne. unfold Store.retrieve. simpl. destruct (String.eqb_spec i ""); [congruence|].
    rewrite Hl. destruct (sassoc i m) as [d|] eqn:E; simpl; [|reflexivity].
    rewrite codec_roundtrip, (Hd i d E), String.eqb_refl. reflexivity.
  Qed.

  Lemma represents_step s m o :
    represents s m ->
    fst (sstep D doc_id marshal unmarshal fname s o) = fst (spec_step m o) /\
    represents (snd (sstep D doc_id marshal unmarshal fname s o)) (snd (spec_step m o)).
  Proof.
    intros HR. destruct o as [d nc|i]; simpl.
    - destruct HR as [fs [-> [Hl Hd]]]. unfold Store.store. simpl.
      destruct d as [x|]; simpl; [|split; [reflexivity|exists fs; auto]].
      destruct (doc_id x) as [i|] eqn:Ei; simpl; [|split; [reflexivity|exists fs; auto]].
      destruct (String.eqb_spec i "") as [->|Hne]; simpl; [split; [reflexivity|exists fs; auto]|].
      fold (Store.lookup (fname i) fs). rewrite Hl.
      destruct (sassoc i m) as [old|] eqn:Eo; simpl.
      + destruct nc; simpl; [split; [reflexivity|exists fs; auto]|].
        split; [reflexivity|]. exists (put (fname i) (mk_file (marshal x) true) fs). split; [reflexivity|]. split.
        * intros j. simpl. destruct (String.eqb_spec j i) as [->|Hj].
          -- rewrite lookup_put_same. reflexivity.
          -- rewrite lookup_put_other; [apply Hl|]. intros E. apply fname_injective in E. congruence.
        * intros j y. simpl. destruct (String.eqb_spec j i) as [->|Hj]; [intros E; injection E as <-; exact Ei|apply Hd].
      + rewrite andb_false_r. simpl.
        split; [reflexivity|]. exists (put (fname i) (mk_file (marshal x) true) fs). split; [reflexivity|]. split.
        * intros j. simpl. destruct (String.eqb_spec j i) as [->|Hj].
          -- rewrite lookup_put_same. reflexivity.
          -- rewrite lookup_put_other; [apply Hl|]. intros E. apply fname_injective in E. congruence.
        * intros j y. simpl. destruct (String.eqb_spec j i) as [->|Hj]; [intros E; injection E as <-; exact Ei|apply Hd].
    - split; [|exact HR]. f_equal. destruct (String.eqb_spec i "") as [->|Hne].
      + unfold Store.retrieve. reflexivity.
      + apply represents_retrieve; assumption.
  Qed.

  Theorem store_refines_map os : forall s m,
    represents s m ->
    fst (srun D doc_id marshal unmarshal fname s os) = fst (spec_run m os) /\
    represents (snd (srun D doc_id marshal unmarshal fname s os)) (snd (spec_run m os)).
  Proof.
    induction os as [|o r IH]; intros s m HR; simpl; [auto|].
    destruct (represents_step s m o HR) as [H1 H2].
    destruct (sstep D doc_id marshal unmarshal fname s o) as [x s1].
    destruct (spec_step m o) as [y m1]. simpl in H1, H2. subst y.
    destruct (IH s1 m1 H2) as [I1 I2].
    destruct (srun D doc_id marshal unmarshal fname s1 r) as [xs s2].
    destruct (spec_run m1 r) as [ys m2]. simpl in *. subst. auto.
  Qed.

  Theorem empty_directory_represents_empty_map : represents (DDir true []) [].
  Proof. exists []. split; [reflexivity|]. split; [reflexivity|]. intros i d H. discriminate. Qed.
End Facts.
