(* Lookups and node matching return exactly the documented matches (C16). *)
From Coq Require Import Lia Permutation.
From Verif Require Import Model.Base Model.Node Model.Graph Model.Match Proofs.ListFacts Proofs.GraphFacts Proofs.OpsWf.
Open Scope list_scope.

(* ---- plain lookups --------------------------------------------------------------------- *)
Theorem by_id_some l i n : by_id l i = Some n -> In n (nl_nodes l) /\ n_id n = i.
Proof. apply first_node_Some. Qed.

Theorem by_id_none l i : by_id l i = None <-> ~ In i (ids l).
Proof. apply first_node_None. Qed.

Theorem by_id_unique l i n : NoDup (ids l) -> In n (nl_nodes l) -> n_id n = i -> by_id l i = Some n.
Proof.
  intros Hnd Hin Hid. unfold by_id. unfold ids in Hnd.
  induction (nl_nodes l) as [|m r IH]; simpl in *; [contradiction|].
  inversion Hnd as [|? ? Hm Hr]; subst. unfold first_node; simpl.
  destruct Hin as [->|Hin]; [rewrite String.eqb_refl; reflexivity|].
  destruct (String.eqb_spec (n_id m) (n_id n)) as [Heq|_].
  - exfalso. apply Hm. rewrite Heq. apply in_map. assumption.
  - apply IH; assumption.
Qed.

Theorem by_name_spec l nm n : In n (by_name l nm) <-> In n (nl_nodes l) /\ n_name n = nm.
Proof. unfold by_name. rewrite filter_In, String.eqb_eq. tauto. Qed.

Theorem by_identifier_spec l t v n :
  In n (by_identifier l t v) <->
  In n (nl_nodes l) /\ zassoc (ident_type_of_string t) (n_identifiers n) = Some v.
Proof.
  unfold by_identifier. rewrite filter_In. split; intros [H1 H2]; split; auto.
  - destruct (zassoc _ _) as [v'|]; [|discriminate]. apply String.eqb_eq in H2. subst. reflexivity.
  - rewrite H2. apply String.eqb_refl.
Qed.

Local Arguments Nat.eqb : simpl never.

Lemma root_nodes_go_filter roots want : forall ns have,
  (have + length (filter (fun n => mem (n_id n) roots) ns) <= want)%nat ->
  root_nodes_go roots want ns have = filter (fun n => mem (n_id n) roots) ns.
Proof.
  induction ns as [|n r IH]; intros have Hle; simpl in *; [reflexivity|].
  destruct (mem (n_id n) roots) eqn:E; simpl in *.
  - destruct (Nat.eqb_spec (S have) want) as [Heq|Hne].
    + assert (Hz : length (filter (fun n0 => mem (n_id n0) roots) r) = 0%nat) by lia.
      apply length_zero_iff_nil in Hz. rewrite Hz. reflexivity.
    + f_equal. apply IH. lia.
  - apply IH. assumption.
Qed.

Theorem root_nodes_spec l :
  NoDup (ids l) -> root_nodes l = filter (fun n => mem (n_id n) (nl_root_elements l)) (nl_nodes l).
Proof.
  intros Hnd. unfold root_nodes. apply root_nodes_go_filter. simpl.
  set (roots := nl_root_elements l).
  rewrite <- (map_length n_id (filter _ _)). rewrite (map_filter_ids (fun i => mem i roots)).
  apply NoDup_incl_length.
  - apply NoDup_filter. exact Hnd.
  - intros x Hx. apply filter_In in Hx as [_ Hx]. apply dedup_In. apply mem_In. exact Hx.
Qed.

Theorem root_nodes_members l n :
  NoDup (ids l) -> (In n (root_nodes l) <-> In n (nl_nodes l) /\ In (n_id n) (nl_root_elements l)).
Proof. intros H. rewrite root_nodes_spec by assumption. rewrite filter_In, mem_In. tauto. Qed.

Theorem by_purl_type_nodes l pt n :
  In n (nl_nodes (by_purl_type l pt)) <->
  In n (nl_nodes l) /\
  (String.prefix ("pkg:" ++ pt ++ "/")%string (purl n) || String.prefix ("pkg:/" ++ pt ++ "/")%string (purl n) = true)%bool.
Proof. unfold by_purl_type; simpl. rewrite filter_In. tauto. Qed.

(* ---- GetMatchingNode --------------------------------------------------------------------------- *)
Lemma dedup_nodes_id ns : NoDup (map n_id ns) -> dedup_nodes ns = ns.
Proof.
  induction ns as [|n r IH]; simpl; intros H; [reflexivity|].
  inversion H as [|? ? Hn Hr]; subst. rewrite (IH Hr). f_equal.
  apply filter_all_true. intros m Hm. apply negb_true_iff. apply String.eqb_neq.
  intros Heq. apply Hn. rewrite Heq. apply in_map. assumption.
Qed.

Lemma NoDup_ids_filter (f : node -> bool) ns : NoDup (map n_id ns) -> NoDup (map n_id (filter f ns)).
Proof.
  induction ns as [|n r IH]; simpl; intros H; [constructor|].
  inversion H as [|? ? Hn Hr]; subst. destruct (f n); simpl; [constructor|]; auto.
  intros Hin. apply Hn. apply in_map_iff in Hin as [m [Hm Hin]]. apply filter_In in Hin as [Hin _].
  apply in_map_iff. exists m. auto.
Qed.

(* the documented rule, with H the hash candidates and the purl as tie-breaker *)
Definition matching_rule (l : nodelist) (p : node) : result (option node) :=
  let H := filter (hash_candidate (n_hashes p)) (nl_nodes l) in
  let tp := purl p in
  match H with
  | [n] => Ok (Some n)
  | [] =>
      if String.eqb tp "" then Ok None
      else match filter (fun n => String.eqb (purl n) tp) (nl_nodes l) with
           | [] => Ok None
           | [n] => Ok (Some n)
           | _ => Err
           end
  | _ =>
      if String.eqb tp "" then Err
      else match filter (fun n => String.eqb (purl n) tp) H with
           | [n] => Ok (Some n)
           | _ => Err
           end
  end.

Theorem matching_node_rule l p : NoDup (ids l) -> matching_node l p = matching_rule l p.
Proof.
  intros Hnd. unfold matching_node, matching_rule.
  rewrite dedup_nodes_id by (apply NoDup_ids_filter; exact Hnd). reflexivity.
Qed.

Lemma dedup_nodes_incl ns n : In n (dedup_nodes ns) -> In n ns.
Proof.
  revert n. induction ns as [|m r IH]; simpl; intros n H; [contradiction|].
  destruct H as [->|H]; [left; reflexivity|]. apply filter_In in H as [H _]. right. apply IH. assumption.
Qed.

(* a returned node is always an element of the list (no uniqueness assumption) *)
Theorem matching_in_list l p n : matching_node l p = Ok (Some n) -> In n (nl_nodes l).
Proof.
  unfold matching_node.
  set (found := dedup_nodes (filter (hash_candidate (n_hashes p)) (nl_nodes l))).
  assert (Hf : forall m, In m found -> In m (nl_nodes l)).
  { intros m Hm. apply dedup_nodes_incl in Hm. apply filter_In in Hm. tauto. }
  clearbody found. destruct found as [|a [|b r]] eqn:E.
  - destruct (String.eqb (purl p) ""); [discriminate|].
    destruct (filter (fun n0 => String.eqb (purl n0) (purl p)) (nl_nodes l)) as [|c [|d r']] eqn:E2; try discriminate.
    intros H. injection H as <-. assert (Hc : In c (filter (fun n0 => String.eqb (purl n0) (purl p)) (nl_nodes l))) by (rewrite E2; left; reflexivity).
    apply filter_In in Hc. tauto.
  - intros H. injection H as <-. apply Hf. left. reflexivity.
  - destruct (String.eqb (purl p) ""); [discriminate|].
    destruct (filter (fun n0 => String.eqb (purl n0) (purl p)) (a :: b :: r)) as [|c [|d r']] eqn:E2; try discriminate.
    intros H. injection H as <-. assert (Hc : In c (filter (fun n0 => String.eqb (purl n0) (purl p)) (a :: b :: r))) by (rewrite E2; left; reflexivity).
    apply filter_In in Hc as [Hc _]. apply Hf. assumption.
Qed.

(* what a successful match means *)
Theorem matching_sound l p n :
  NoDup (ids l) -> matching_node l p = Ok (Some n) ->
  (hash_candidate (n_hashes p) n = true) \/
  (purl p <> "" /\ purl n = purl p /\ forall m, In m (nl_nodes l) -> hash_candidate (n_hashes p) m = false).
Proof.
  intros Hnd. rewrite matching_node_rule by assumption. unfold matching_rule.
  destruct (filter (hash_candidate (n_hashes p)) (nl_nodes l)) as [|a [|b r]] eqn:E.
  - destruct (String.eqb_spec (purl p) ""); [discriminate|].
    destruct (filter (fun n0 => String.eqb (purl n0) (purl p)) (nl_nodes l)) as [|c [|d r']] eqn:E2; try discriminate.
    intros H. injection H as <-. right. split; [assumption|]. split.
    + assert (Hc : In c (filter (fun n0 => String.eqb (purl n0) (purl p)) (nl_nodes l))) by (rewrite E2; left; reflexivity).
      apply filter_In in Hc as [_ Hc]. apply String.eqb_eq. assumption.
    + intros m Hm. destruct (hash_candidate (n_hashes p) m) eqn:Ec; [|reflexivity].
      assert (Hin : In m (filter (hash_candidate (n_hashes p)) (nl_nodes l))) by (apply filter_In; auto).
      rewrite E in Hin. contradiction.
  - intros H. injection H as <-. left.
    assert (Ha : In a (filter (hash_candidate (n_hashes p)) (nl_nodes l))) by (rewrite E; left; reflexivity).
    apply filter_In in Ha. tauto.
  - destruct (String.eqb (purl p) ""); [discriminate|].
    destruct (filter (fun n0 => String.eqb (purl n0) (purl p)) (a :: b :: r)) as [|c [|d r']] eqn:E2; try discriminate.
    intros H. injection H as <-. left.
    assert (Hc : In c (filter (fun n0 => String.eqb (purl n0) (purl p)) (a :: b :: r))) by (rewrite E2; left; reflexivity).
    apply filter_In in Hc as [Hc _]. rewrite <- E in Hc. apply filter_In in Hc. tauto.
Qed.

(* ---- independence of the order of the nodes ---------------------------------------------------- *)
Lemma Permutation_filter {A} (f : A -> bool) l l' : Permutation l l' -> Permutation (filter f l) (filter f l').
Proof.
  induction 1 as [|x l l' H IH|x y l|l l' l'' H1 IH1 H2 IH2]; simpl.
  - constructor.
  - destruct (f x); [constructor|]; assumption.
  - destruct (f x), (f y); try apply Permutation_refl; constructor.
  - eapply Permutation_trans; eassumption.
Qed.

Definition shape {A B} (l : list A) (z : B) (one : A -> B) (many : B) : B :=
  match l with [] => z | [x] => one x | _ => many end.

Lemma shape_perm {A B} (l l' : list A) (z : B) one many :
  Permutation l l' -> shape l z one many = shape l' z one many.
Proof.
  intros H. pose proof (Permutation_length H) as Hl.
  destruct l as [|a [|b r]]; destruct l' as [|a' [|b' r']]; simpl in Hl; try lia; try reflexivity.
  apply Permutation_length_1 in H. subst. reflexivity.
Qed.

Theorem matching_perm l l' p :
  Permutation (nl_nodes l) (nl_nodes l') -> NoDup (ids l) ->
  matching_node l p = matching_node l' p.
Proof.
  intros Hp Hnd.
  assert (Hnd' : NoDup (ids l')).
  { unfold ids. eapply Permutation_NoDup; [apply Permutation_map; exact Hp|exact Hnd]. }
  rewrite !matching_node_rule by assumption. unfold matching_rule.
  set (H := filter (hash_candidate (n_hashes p)) (nl_nodes l)).
  set (H' := filter (hash_candidate (n_hashes p)) (nl_nodes l')).
  assert (HP : Permutation H H') by (apply Permutation_filter; exact Hp).
  set (pf := fun n => String.eqb (purl n) (purl p)).
  assert (E1 : forall X X' : list node, Permutation X X' ->
             match filter pf X with [] => @Ok (option node) None | [n] => Ok (Some n) | _ => Err end =
             match filter pf X' with [] => Ok None | [n] => Ok (Some n) | _ => Err end).
  { intros X X' HX. apply (shape_perm (filter pf X) (filter pf X') (Ok None) (fun n => Ok (Some n)) Err).
    apply Permutation_filter. exact HX. }
  assert (E2 : forall X X' : list node, Permutation X X' ->
             match filter pf X with [n] => @Ok (option node) (Some n) | _ => Err end =
             match filter pf X' with [n] => Ok (Some n) | _ => Err end).
  { intros X X' HX. pose proof (shape_perm (filter pf X) (filter pf X') (@Err (option node)) (fun n => Ok (Some n)) Err (Permutation_filter pf _ _ HX)) as Hs.
    unfold shape in Hs. destruct (filter pf X) as [|a [|b r]]; destruct (filter pf X') as [|a' [|b' r']]; exact Hs. }
  pose proof (Permutation_length HP) as Hl.
  destruct H as [|a [|b r]] eqn:EH; destruct H' as [|a' [|b' r']] eqn:EH'; simpl in Hl; try lia.
  - destruct (String.eqb (purl p) ""); [reflexivity|]. apply E1. exact Hp.
  - apply Permutation_length_1 in HP. subst. reflexivity.
  - destruct (String.eqb (purl p) ""); [reflexivity|]. apply E2. exact HP.
Qed.
