(* C14 — node diff is sound, complete and reconstructive. Statements only; proofs in
   Proofs/DiffFacts.v.  fsame f a b: the two nodes carry the same content in schema field f
   (equality for scalars, set equality for list- and map-valued attributes — persons and external
   references identified by their flat strings —, equality to the second for dates).
   maps_unique: the identifier and hash maps have unique keys (what a Go map is). *)
From Verif Require Import Model.Base Model.Node Model.Graph Model.Flat Model.Diff Proofs.DiffFacts.
Open Scope list_scope.

Theorem C14_diff_self : forall a, maps_unique a -> node_diff a a = None.
Proof. exact diff_self. Qed.
Print Assumptions C14_diff_self.

(* a difference is reported exactly when some attribute differs (so: none for an equal node) *)
Theorem C14_diff_none_iff : forall a b,
  maps_unique a -> maps_unique b -> (node_diff a b = None <-> forall f, fsame f a b).
Proof. exact diff_none_iff. Qed.
Print Assumptions C14_diff_none_iff.

(* each differing attribute is counted once *)
Theorem C14_field_counted_once : forall f a b,
  maps_unique a -> maps_unique b ->
  (field_count f a b = 0%nat <-> fsame f a b) /\ (field_count f a b <= 1)%nat.
Proof. intros f a b Ua Ub. split; [apply field_count_zero_iff; assumption|apply field_count_le1]. Qed.
Print Assumptions C14_field_counted_once.

Theorem C14_diff_count : forall a b d,
  node_diff a b = Some d ->
  d_count d = length (filter (fun f => negb (Nat.eqb (field_count f a b) 0)) nfields).
Proof. exact diff_count_spec. Qed.
Print Assumptions C14_diff_count.

(* the reported additions and removals rebuild the second node's attributes from the first *)
Theorem C14_diff_reconstruct : forall a b d,
  maps_unique a -> maps_unique b -> node_diff a b = Some d -> forall f, fsame f (apply_diff a d) b.
Proof. exact diff_reconstruct. Qed.
Print Assumptions C14_diff_reconstruct.

(* every schema field takes part *)
Theorem C14_all_fields : forall f, In f nfields.
Proof. exact nfields_complete. Qed.
Print Assumptions C14_all_fields.

(* non-vacuity: a pair differing in a scalar, a list, a map and the kind *)
Definition mk (ty : Z) (nm : string) (lic : list string) (h : list (Z * string)) : node :=
  {| n_id := "n"; n_type := ty; n_name := nm; n_version := ""; n_file_name := ""; n_url_home := "";
     n_url_download := ""; n_licenses := lic; n_license_concluded := ""; n_license_comments := "";
     n_copyright := ""; n_source_info := ""; n_comment := ""; n_summary := ""; n_description := "";
     n_attribution := []; n_suppliers := []; n_originators := []; n_release_date := None;
     n_build_date := None; n_valid_until_date := None; n_external_references := [];
     n_file_types := []; n_identifiers := []; n_hashes := h; n_primary_purpose := [] |}.

Example C14_nonvacuous :
  let a := mk 1 "x" ["MIT"; "MIT"] [(1, "aa"); (3, "bb")] in
  let b := mk 0 "" ["Apache-2.0"] [(3, "cc")] in
  maps_unique a /\ maps_unique b /\
  option_map d_count (node_diff a b) = Some 4%nat /\
  option_map (fun d => n_type (apply_diff a d)) (node_diff a b) = Some 0.
Proof.
  simpl. split; [split; repeat constructor; simpl; intuition discriminate|].
  split; [split; repeat constructor; simpl; intuition discriminate|].
  split; vm_compute; reflexivity.
Qed.
