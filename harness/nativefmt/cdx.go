package nativefmt

import (
	"fmt"
	"strings"

	cdx "github.com/CycloneDX/cyclonedx-go"

	"verifharness/coqfmt"
)

func cHashes(hs *[]cdx.Hash) string {
	if hs == nil {
		return "[]"
	}
	return coqfmt.List(*hs, func(h cdx.Hash) string { return pair(string(h.Algorithm), h.Value) })
}

func CComp(c *cdx.Component) string {
	var lics, refs, subs []string
	if c.Licenses != nil {
		for _, l := range *c.Licenses {
			id := ""
			if l.License != nil {
				id = l.License.ID
			}
			lics = append(lics, fmt.Sprintf("(mk_clic %s %s %s)", coqfmt.Str(l.Expression), coqfmt.Bool(l.License != nil), coqfmt.Str(id)))
		}
	}
	if c.ExternalReferences != nil {
		for _, r := range *c.ExternalReferences {
			refs = append(refs, fmt.Sprintf("(mk_cxref %s %s %s %s)", coqfmt.Str(r.URL), coqfmt.Str(r.Comment), coqfmt.Str(string(r.Type)), cHashes(r.Hashes)))
		}
	}
	if c.Components != nil {
		for i := range *c.Components {
			subs = append(subs, CComp(&(*c.Components)[i]))
		}
	}
	sup := "None"
	if c.Supplier != nil {
		var cs []string
		if c.Supplier.Contact != nil {
			for _, k := range *c.Supplier.Contact {
				cs = append(cs, fmt.Sprintf("(%s, %s, %s)", coqfmt.Str(k.Name), coqfmt.Str(k.Email), coqfmt.Str(k.Phone)))
			}
		}
		sup = fmt.Sprintf("(Some (%s, [%s]))", coqfmt.Str(c.Supplier.Name), strings.Join(cs, "; "))
	}
	return fmt.Sprintf("(mk_comp %s %s %s %s %s %s [%s] %s [%s] %s %s %s [%s])",
		coqfmt.Str(c.BOMRef), coqfmt.Str(string(c.Type)), coqfmt.Str(c.Name), coqfmt.Str(c.Version), coqfmt.Str(c.Description),
		coqfmt.Str(c.Copyright), strings.Join(lics, "; "), cHashes(c.Hashes), strings.Join(refs, "; "),
		coqfmt.Str(c.PackageURL), coqfmt.Str(c.CPE), sup, strings.Join(subs, "; "))
}

func CBom(b *cdx.BOM) string {
	meta := "None"
	var lcs, comps, deps []string
	if b.Metadata != nil {
		if b.Metadata.Component != nil {
			meta = "(Some " + CComp(b.Metadata.Component) + ")"
		}
		if b.Metadata.Lifecycles != nil {
			for _, l := range *b.Metadata.Lifecycles {
				lcs = append(lcs, fmt.Sprintf("(%s, %s, %s)", coqfmt.Str(string(l.Phase)), coqfmt.Str(l.Name), coqfmt.Str(l.Description)))
			}
		}
	}
	if b.Components != nil {
		for i := range *b.Components {
			comps = append(comps, CComp(&(*b.Components)[i]))
		}
	}
	if b.Dependencies != nil {
		for _, d := range *b.Dependencies {
			var ds []string
			if d.Dependencies != nil {
				ds = *d.Dependencies
			}
			deps = append(deps, fmt.Sprintf("(%s, %s)", coqfmt.Str(d.Ref), coqfmt.Strs(ds)))
		}
	}
	return fmt.Sprintf("(mk_cbom %s %d %s %s [%s] [%s] [%s])", coqfmt.Str(b.SerialNumber), b.Version, coqfmt.Bool(b.Metadata != nil), meta,
		strings.Join(lcs, "; "), strings.Join(comps, "; "), strings.Join(deps, "; "))
}
