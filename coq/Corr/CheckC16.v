(* Correspondence evaluator for lookups and node matching (C16). *)
From Verif Require Import Model.Base Model.Node Model.Graph Model.Match Corr.Canon.
Open Scope list_scope.

Inductive query :=
  | QById (i : string)
  | QByName (nm : string)
  | QByIdent (t v : string)
  | QRoots
  | QPurlType (pt : string)
  | QMatch (p : node).

(* observed answers: a node list (in list order), an optional node, or the outcome of
   GetMatchingNode (0 = nil error, 1 = ErrorMoreThanOneMatch) with the node returned *)
Inductive answer :=
  | ANodes (ns : list node)
  | ANode (o : option node)
  | AMatch (err : Z) (o : option node)
  | AList (l : nodelist).

Record case16 := mk_case16 { q_list : nodelist; q_query : query; q_answer : answer }.

Definition onode_eqb := opt_eqb node_eqb.

Definition case_ok (c : case16) : bool :=
  let l := q_list c in
  match q_query c, q_answer c with
  | QById i, ANode o => onode_eqb (by_id l i) o
  | QByName nm, ANodes ns => list_eqb node_eqb (by_name l nm) ns
  | QByIdent t v, ANodes ns => list_eqb node_eqb (by_identifier l t v) ns
  | QRoots, ANodes ns => list_eqb node_eqb (root_nodes l) ns
  | QPurlType pt, AList r => nl_same (by_purl_type l pt) r
  | QMatch p, AMatch err o =>
      match matching_node l p with
      | Ok o' => Z.eqb err 0 && onode_eqb o' o
      | Err => Z.eqb err 1 && onode_eqb None o
      | _ => false
      end
  | _, _ => false
  end.

Definition mismatches (cs : list case16) : list nat := failing case_ok cs.
