(* Model of pkg/sbom/nodelist.go: the graph-editing and extraction operations.

   Go iterates maps in random order; wherever the code does so the order of the
   produced list is unobservable by contract and the model picks first-occurrence
   order.  The correspondence check compares canonical forms (Corr/Canon.v), the
   theorems are stated on order-free abstractions (Proofs/GraphFacts.v).
   Where the code's intermediate edge bookkeeping (append to the first edge of a key
   versus append a new edge) is erased by the cleanEdges call that follows, the model
   concatenates the edge lists and cleans: same triple set, same normal form. *)
From Verif Require Import Model.Base Model.Node.
Open Scope list_scope.

Definition ids (l : nodelist) : list string := map n_id (nl_nodes l).
Definition has (l : nodelist) (i : string) : bool := mem i (ids l).

Definition empty_nl : nodelist := {| nl_nodes := []; nl_edges := []; nl_root_elements := [] |}.

Definition ekey := (string * Z)%type.
Definition ekey_eqb (k1 k2 : ekey) : bool := String.eqb (fst k1) (fst k2) && Z.eqb (snd k1) (snd k2).
Definition key_of (e : edge) : ekey := (e_from e, e_type e).

Fixpoint kmem (k : ekey) (l : list ekey) : bool :=
  match l with [] => false | k' :: r => ekey_eqb k k' || kmem k r end.

Fixpoint kdedup (l : list ekey) : list ekey :=
  match l with
  | [] => []
  | k :: r => k :: filter (fun k' => negb (ekey_eqb k k')) (kdedup r)
  end.

(* ---- cleanEdges ------------------------------------------------------------ *)
(* One edge per (from,type) whose source is present, targets de-duplicated and
   restricted to present nodes, edges without remaining target dropped. *)
Definition group_tos (present : string -> bool) (es : list edge) (k : ekey) : list string :=
  dedup (filter present (flat_map e_to (filter (fun e => ekey_eqb (key_of e) k) es))).

Definition clean_edges (present : string -> bool) (es : list edge) : list edge :=
  flat_map (fun k => match group_tos present es k with
                     | [] => []
                     | tos => [ {| e_type := snd k; e_from := fst k; e_to := tos |} ]
                     end)
           (kdedup (map key_of (filter (fun e => present (e_from e)) es))).

Definition clean (l : nodelist) : nodelist :=
  {| nl_nodes := nl_nodes l;
     nl_edges := clean_edges (has l) (nl_edges l);
     nl_root_elements := nl_root_elements l |}.

(* ---- helpers ---------------------------------------------------------------- *)
(* apply f to the LAST node with identifier i (indexNodes: later entries overwrite) *)
Fixpoint map_last (i : string) (f : node -> node) (l : list node) : list node * bool :=
  match l with
  | [] => ([], false)
  | n :: r =>
      let '(r', done) := map_last i f r in
      if done then (n :: r', true)
      else if String.eqb (n_id n) i then (f n :: r', true)
      else (n :: r', false)
  end.

Definition first_node (i : string) (ns : list node) : option node :=
  find (fun n => String.eqb (n_id n) i) ns.

Definition last_node (i : string) (ns : list node) : option node :=
  first_node i (rev ns).

(* merge the nodes of l2 into ns (whose original identifiers are oids): a node whose
   identifier already exists combines into the indexed node, the others are appended *)
Definition merge_nodes (comb : node -> node -> node) (ns : list node) (oids : list string) (ns2 : list node) : list node :=
  fold_left (fun acc n2 => if mem (n_id n2) oids
                           then fst (map_last (n_id n2) (fun n => comb n n2) acc)
                           else acc) ns2 ns
  ++ filter (fun n2 => negb (mem (n_id n2) oids)) ns2.

Definition merge_roots (r1 r2 : list string) : list string :=
  r1 ++ filter (fun r => negb (mem r r1)) r2.

(* ---- Add (in place), Union, Intersect ----------------------------------------- *)
Definition add (l l2 : nodelist) : nodelist :=
  let nodes := merge_nodes augment (nl_nodes l) (ids l) (nl_nodes l2) in
  {| nl_nodes := nodes;
     nl_edges := clean_edges (fun i => mem i (map n_id nodes)) (nl_edges l ++ nl_edges l2);
     nl_root_elements := merge_roots (nl_root_elements l) (nl_root_elements l2) |}.

Definition union (l l2 : nodelist) : nodelist :=
  let nodes := merge_nodes update (map node_copy (nl_nodes l)) (ids l) (nl_nodes l2) in
  {| nl_nodes := nodes;
     nl_edges := clean_edges (fun i => mem i (map n_id nodes)) (nl_edges l ++ nl_edges l2);
     nl_root_elements := merge_roots (nl_root_elements l) (nl_root_elements l2) |}.

Definition intersect (l l2 : nodelist) : nodelist :=
  let common := filter (fun i => mem i (ids l2)) (dedup (ids l)) in
  let nodes := flat_map (fun i => match last_node i (nl_nodes l), last_node i (nl_nodes l2) with
                                  | Some a, Some b => [update (node_copy a) b]
                                  | _, _ => []
                                  end) common in
  {| nl_nodes := nodes;
     nl_edges := clean_edges (fun i => mem i common) (nl_edges l ++ nl_edges l2);
     nl_root_elements := filter (fun i => mem i (nl_root_elements l) || mem i (nl_root_elements l2)) common |}.

(* ---- RemoveNodes ------------------------------------------------------------------ *)
Definition remove_nodes (l : nodelist) (rm : list string) : nodelist :=
  let nodes := filter (fun n => negb (mem (n_id n) rm)) (nl_nodes l) in
  {| nl_nodes := nodes;
     nl_edges := clean_edges (fun i => mem i (map n_id nodes)) (nl_edges l);
     nl_root_elements := filter (fun r => negb (mem r rm)) (nl_root_elements l) |}.

(* ---- RelateNodeAtID / RelateNodeListAtID --------------------------------------- *)
(* Edge.AddDestinationById *)
Definition add_dest (tos new : list string) : list string :=
  fold_left (fun acc i => if mem i acc then acc else acc ++ [i]) new tos.

(* apply f to the FIRST edge with key k *)
Fixpoint map_first_edge (k : ekey) (f : edge -> edge) (es : list edge) : list edge :=
  match es with
  | [] => []
  | e :: r => if ekey_eqb (key_of e) k then f e :: r else e :: map_first_edge k f r
  end.

Definition has_key (k : ekey) (es : list edge) : bool := kmem k (map key_of es).

Definition set_to (tos : list string) (e : edge) : edge :=
  {| e_type := e_type e; e_from := e_from e; e_to := tos |}.

Definition relate_node_at (l : nodelist) (n : node) (at_ : string) (t : Z) : result nodelist :=
  if negb (has l at_) then Err else
  let k := (at_, t) in
  let edges := if has_key k (nl_edges l)
               then map_first_edge k (fun e => set_to (e_to e ++ [n_id n]) e) (nl_edges l)
               else nl_edges l ++ [ {| e_type := t; e_from := at_; e_to := [n_id n] |} ] in
  let nodes := if has l (n_id n) then nl_nodes l else nl_nodes l ++ [n] in
  Ok {| nl_nodes := nodes; nl_edges := edges; nl_root_elements := nl_root_elements l |}.

Definition relate_list_at (l l2 : nodelist) (at_ : string) (t : Z) : result nodelist :=
  if negb (has l at_) then Err else
  let k := (at_, t) in
  let orig := nl_edges l in
  let edges1 := if has_key k orig
                then map_first_edge k (fun e => set_to (add_dest (e_to e) (nl_root_elements l2)) e) orig
                else orig ++ [ {| e_type := t; e_from := at_; e_to := nl_root_elements l2 |} ] in
  let edges2 := fold_left (fun es e => if has_key (key_of e) orig
                                      then map_first_edge (key_of e) (fun e0 => set_to (add_dest (e_to e0) (e_to e)) e0) es
                                      else es ++ [edge_copy e]) (nl_edges l2) edges1 in
  let nodes := nl_nodes l ++ filter (fun n => negb (mem (n_id n) (ids l))) (nl_nodes l2) in
  Ok {| nl_nodes := nodes; nl_edges := edges2; nl_root_elements := nl_root_elements l |}.

(* RelateNodeListAtID with the list itself as the argument, l.RelateNodeListAtID(l, at, t): the loop
   over "the argument's edges" then ranges over the receiver's own edge slice as it is after the
   first step (the new edge included), while the index of edge keys is the one taken before it; the
   new edge, whose key the stale index lacks, is therefore appended a second time.  Every node is
   already present.  *)
Definition relate_self_at (l : nodelist) (at_ : string) (t : Z) : result nodelist :=
  if negb (has l at_) then Err else
  let k := (at_, t) in
  let orig := nl_edges l in
  let edges1 := if has_key k orig
                then map_first_edge k (fun e => set_to (add_dest (e_to e) (nl_root_elements l)) e) orig
                else orig ++ [ {| e_type := t; e_from := at_; e_to := nl_root_elements l |} ] in
  let edges2 := fold_left (fun es e => if has_key (key_of e) orig
                                      then map_first_edge (key_of e) (fun e0 => set_to (add_dest (e_to e0) (e_to e)) e0) es
                                      else es ++ [edge_copy e]) edges1 edges1 in
  Ok {| nl_nodes := nl_nodes l; nl_edges := edges2; nl_root_elements := nl_root_elements l |}.

(* ---- extraction: NodeSiblings, NodeGraph, NodeDescendants, GetNodesByPurlType ---- *)
Definition out_edges (l : nodelist) (i : string) : list edge :=
  filter (fun e => String.eqb (e_from e) i) (nl_edges l).

(* identifiers of existing nodes the edges out of i point to *)
Definition succs (l : nodelist) (i : string) : list string :=
  filter (has l) (dedup (flat_map e_to (out_edges l i))).

Definition nodes_of (l : nodelist) (is_ : list string) : list node :=
  flat_map (fun i => match first_node i (nl_nodes l) with Some n => [n] | None => [] end) is_.

Definition node_siblings (l : nodelist) (i : string) : result nodelist :=
  if String.eqb i "" then Err (* returns nil *) else
  match first_node i (nl_nodes l) with
  | None => Ok empty_nl
  | Some _ =>
      let seen := dedup (i :: succs l i) in
      Ok {| nl_nodes := nodes_of l seen;
            nl_edges := clean_edges (fun x => mem x seen) (out_edges l i);
            nl_root_elements := [i] |}
  end.

Definition is_root (l : nodelist) (i : string) : bool := mem i (nl_root_elements l).

(* NodeGraph: everything reachable from the start without passing through (or ending
   at) another root element; fuel = number of nodes *)
Definition graph_round (l : nodelist) (start : string) (seen : list string) : list string :=
  let new := flat_map (fun i => if String.eqb i "" then [] else succs l i) seen in
  dedup (seen ++ filter (fun i => negb (is_root l i)) new).

Fixpoint graph_rounds (k : nat) (l : nodelist) (start : string) (seen : list string) : list string :=
  match k with
  | O => seen
  | S k' => graph_rounds k' l start (graph_round l start seen)
  end.

Definition node_graph (l : nodelist) (i : string) : result nodelist :=
  match first_node i (nl_nodes l) with
  | None => Err (* returns nil *)
  | Some _ =>
      let seen := graph_rounds (length (nl_nodes l)) l i [i] in
      Ok {| nl_nodes := nodes_of l seen;
            nl_edges := clean_edges (fun x => mem x seen)
                          (filter (fun e => mem (e_from e) seen) (nl_edges l));
            nl_root_elements := [i] |}
  end.

(* NodeDescendants(id, depth): depth levels, the start node being level one; a root
   element other than the start is reached but not traversed through *)
Definition desc_round (l : nodelist) (start : string) (seen : list string) : list string :=
  let new := flat_map (fun i => if String.eqb i start || negb (is_root l i) then succs l i else []) seen in
  dedup (seen ++ new).

Fixpoint desc_rounds (k : nat) (l : nodelist) (start : string) (seen : list string) : list string :=
  match k with
  | O => seen
  | S k' => desc_rounds k' l start (desc_round l start seen)
  end.

Definition node_descendants (l : nodelist) (i : string) (depth : nat) : nodelist :=
  match first_node i (nl_nodes l) with
  | None => empty_nl
  | Some _ =>
      let seen := match depth with O => [] | S d => desc_rounds d l i [i] end in
      {| nl_nodes := nodes_of l seen;
         nl_edges := clean_edges (fun x => mem x seen) (nl_edges l);
         nl_root_elements := [i] |}
  end.

Definition by_purl_type (l : nodelist) (pt : string) : nodelist :=
  let nodes := filter (fun n => String.prefix ("pkg:" ++ pt ++ "/")%string (purl n)
                             || String.prefix ("pkg:/" ++ pt ++ "/")%string (purl n)) (nl_nodes l) in
  let nids := map n_id nodes in
  let edges0 := filter (fun e => mem (e_from e) nids) (nl_edges l) in
  {| nl_nodes := nodes;
     nl_edges := clean_edges (fun i => mem i nids) edges0;
     nl_root_elements := filter (fun i => negb (mem i (map e_from edges0))) nids |}.

(* ---- operation sequences (C08 "any sequence of these operations") ------------------ *)
Inductive op :=
  | OpClean
  | OpAdd (l2 : nodelist)
  | OpUnion (l2 : nodelist)
  | OpIntersect (l2 : nodelist)
  | OpRemove (rm : list string)
  | OpRelateNode (n : node) (at_ : string) (t : Z)
  | OpRelateList (l2 : nodelist) (at_ : string) (t : Z)
  | OpSiblings (i : string)
  | OpGraph (i : string)
  | OpDescendants (i : string) (depth : nat)
  | OpByPurlType (pt : string).

Definition or_keep (l : nodelist) (r : result nodelist) : nodelist :=
  match r with Ok l' => l' | _ => l end.

(* the state after an operation; a call that reports an error (or returns nil) leaves
   the current list as it was *)
Definition step (l : nodelist) (o : op) : nodelist :=
  match o with
  | OpClean => clean l
  | OpAdd l2 => add l l2
  | OpUnion l2 => union l l2
  | OpIntersect l2 => intersect l l2
  | OpRemove rm => remove_nodes l rm
  | OpRelateNode n a t => or_keep l (relate_node_at l n a t)
  | OpRelateList l2 a t => or_keep l (relate_list_at l l2 a t)
  | OpSiblings i => or_keep l (node_siblings l i)
  | OpGraph i => or_keep l (node_graph l i)
  | OpDescendants i d => node_descendants l i d
  | OpByPurlType pt => by_purl_type l pt
  end.

(* ---- histories over a pool of live graphs ------------------------------------------
   Real programs hold several node lists at once and pass one as the argument of an
   operation on another.  A pool operation names the receiver slot, optionally the slot
   whose list is the argument, and the slot that receives the result (the receiver's own
   slot for the in-place operations).  Lists are values here: a step writes one slot and
   leaves every other one as it was.  *)
Fixpoint set_nth {A} (n : nat) (x : A) (l : list A) : list A :=
  match l, n with
  | [], _ => []
  | _ :: r, O => x :: r
  | y :: r, S k => y :: set_nth k x r
  end.

Definition with_arg (o : op) (l2 : nodelist) : op :=
  match o with
  | OpAdd _ => OpAdd l2
  | OpUnion _ => OpUnion l2
  | OpIntersect _ => OpIntersect l2
  | OpRelateList _ a t => OpRelateList l2 a t
  | o => o
  end.

Record pop := mk_pop { po_recv : nat; po_arg : option nat; po_op : op; po_dst : nat }.

Definition pool_op (p : list nodelist) (po : pop) : op :=
  match po_arg po with
  | Some a => with_arg (po_op po) (nth a p empty_nl)
  | None => po_op po
  end.

(* the list a step computes; relating a list at one of its own nodes has its own definition *)
Definition pool_result (p : list nodelist) (po : pop) : nodelist :=
  let l := nth (po_recv po) p empty_nl in
  match po_arg po, po_op po with
  | Some a, OpRelateList _ at_ t =>
      if Nat.eqb a (po_recv po) then or_keep l (relate_self_at l at_ t) else step l (pool_op p po)
  | _, _ => step l (pool_op p po)
  end.

Definition pool_step (p : list nodelist) (po : pop) : list nodelist :=
  set_nth (po_dst po) (pool_result p po) p.
