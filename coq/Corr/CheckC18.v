(* Correspondence evaluator for reader/writer configuration histories (C18). *)
From Verif Require Import Model.Base Model.Opts Corr.Canon.
Open Scope list_scope.

Record case18 := mk_case18 {
  h_defaults : conf;                 (* documented defaults, per observed key *)
  h_keys : list string;              (* the settings observed *)
  h_fallback : list (string * Z);    (* per setting: what a call falls back to *)
  h_history : list hop;
  h_obs : list (list (list string)); (* after each step: for every live instance, the value of every key *)
  h_calls : list (list string) }.    (* for each call, in order: the effective value of every key *)

Definition fb_of (tab : list (string * Z)) (k : string) : Z :=
  match sassoc k tab with Some z => z | None => 2 end.

Definition observe (keys : list string) (s : st) : list (list string) :=
  map (fun a => map (fun k => aget k (nth a (heap s) [])) keys) (insts s).

Definition lls_eqb := list_eqb (list_eqb String.eqb).

(* "-" in an observed call marks a setting that does not take part in that call *)
Definition eff_eqb (model observed : string) : bool := String.eqb observed "-" || String.eqb model observed.

Fixpoint replay (d : conf) (keys : list string) (fb : string -> Z) (s : st) (h : list hop)
                (obs : list (list (list string))) (calls : list (list string)) : bool :=
  match h with
  | [] => match obs, calls with [], [] => true | _, _ => false end
  | o :: r =>
      let s' := step d s o in
      match obs with
      | [] => false
      | ob :: obs' =>
          lls_eqb (observe keys s') ob &&
          match o with
          | HNew _ => replay d keys fb s' r obs' calls
          | HCall i pc =>
              match calls with
              | [] => false
              | c :: calls' =>
                  list_eqb eff_eqb (map (effective fb s' i pc) keys) c
                  && replay d keys fb s' r obs' calls'
              end
          end
      end
  end.

Definition case_ok (c : case18) : bool :=
  replay (h_defaults c) (h_keys c) (fb_of (h_fallback c)) (init (h_defaults c)) (h_history c) (h_obs c) (h_calls c).

Definition mismatches (cs : list case18) : list nat := failing case_ok cs.
