(* Well-formedness and normal-form preservation of every graph operation (C08). *)
From Coq Require Import Lia Permutation.
From Verif Require Import Model.Base Model.Node Model.Graph Proofs.ListFacts Proofs.GraphFacts.
Open Scope list_scope.

(* ---- identifiers are preserved by the node-level combinators ------------------ *)
Lemma update_id a b : n_id (update a b) = n_id a.
Proof. reflexivity. Qed.
Lemma augment_id a b : n_id (augment a b) = n_id a.
Proof. reflexivity. Qed.
Lemma node_copy_id a : n_id (node_copy a) = n_id a.
Proof. reflexivity. Qed.

Lemma map_node_copy_ids l : map n_id (map node_copy l) = map n_id l.
Proof. rewrite map_map. apply map_ext. intros; reflexivity. Qed.

Lemma map_last_ids i f l :
  (forall n, n_id (f n) = n_id n) -> map n_id (fst (map_last i f l)) = map n_id l.
Proof.
  intros Hf. induction l as [|n r IH]; simpl; [reflexivity|].
  destruct (map_last i f r) as [r' done] eqn:E. simpl in IH.
  destruct done; simpl; [rewrite IH; reflexivity|].
  destruct (String.eqb (n_id n) i); simpl; rewrite ?Hf, IH; reflexivity.
Qed.

Lemma map_filter_ids (q : string -> bool) l :
  map n_id (filter (fun n => q (n_id n)) l) = filter q (map n_id l).
Proof.
  induction l as [|n r IH]; simpl; [reflexivity|].
  destruct (q (n_id n)); simpl; rewrite IH; reflexivity.
Qed.

Lemma merge_nodes_ids comb ns oids ns2 :
  (forall a b, n_id (comb a b) = n_id a) ->
  map n_id (merge_nodes comb ns oids ns2) =
  map n_id ns ++ filter (fun i => negb (mem i oids)) (map n_id ns2).
Proof.
  intros Hc. unfold merge_nodes. rewrite map_app. f_equal.
  - revert ns. induction ns2 as [|n2 r IH]; intros ns; simpl; [reflexivity|].
    rewrite IH. destruct (mem (n_id n2) oids); [|reflexivity].
    apply map_last_ids. intros n. apply Hc.
  - apply (map_filter_ids (fun i => negb (mem i oids))).
Qed.

Lemma merge_roots_incl r1 r2 X : incl r1 X -> incl r2 X -> incl (merge_roots r1 r2) X.
Proof.
  intros H1 H2 x Hx. unfold merge_roots in Hx. apply in_app_or in Hx as [Hx|Hx]; [auto|].
  apply filter_In in Hx as [Hx _]. auto.
Qed.

Lemma merge_roots_In r1 r2 x : In x (merge_roots r1 r2) <-> In x r1 \/ In x r2.
Proof.
  unfold merge_roots. rewrite in_app_iff, filter_In, negb_true_iff, mem_false.
  destruct (in_dec string_dec x r1); tauto.
Qed.

(* ---- a generic introduction rule ------------------------------------------------ *)
Lemma wf_clean_intro nodes es roots :
  NoDup (map n_id nodes) -> incl roots (map n_id nodes) ->
  wf {| nl_nodes := nodes;
        nl_edges := clean_edges (fun i => mem i (map n_id nodes)) es;
        nl_root_elements := roots |}.
Proof.
  intros Hnd Hr. split; [exact Hnd|]. split; [|exact Hr].
  apply clean_edges_closed_mem.
Qed.

Lemma NoDup_merge_ids ids1 ids2 :
  NoDup ids1 -> NoDup ids2 -> NoDup (ids1 ++ filter (fun i => negb (mem i ids1)) ids2).
Proof.
  intros H1 H2. apply NoDup_app_intro; [assumption| apply NoDup_filter; assumption |].
  intros x Hx1 Hx2. apply filter_In in Hx2 as [_ Hx2]. apply negb_true_iff, mem_false in Hx2. contradiction.
Qed.

(* ---- Add, Union -------------------------------------------------------------------- *)
Theorem add_wf l l2 : wf l -> wf l2 -> wf (add l l2).
Proof.
  intros [Hn1 [_ Hr1]] [Hn2 [_ Hr2]]. unfold add.
  set (nodes := merge_nodes augment (nl_nodes l) (ids l) (nl_nodes l2)).
  assert (Hids : map n_id nodes = ids l ++ filter (fun i => negb (mem i (ids l))) (ids l2)).
  { apply merge_nodes_ids. intros; reflexivity. }
  apply wf_clean_intro.
  - rewrite Hids. apply NoDup_merge_ids; assumption.
  - rewrite Hids. apply merge_roots_incl.
    + intros x Hx. apply in_or_app. left. auto.
    + intros x Hx. apply Hr2 in Hx. apply in_or_app.
      destruct (in_dec string_dec x (ids l)); [left; assumption|right].
      apply filter_In. split; [assumption|]. apply negb_true_iff, mem_false. assumption.
Qed.

Theorem add_norm l l2 : norm (nl_edges (add l l2)).
Proof. apply clean_edges_norm. Qed.

Theorem union_wf l l2 : wf l -> wf l2 -> wf (union l l2).
Proof.
  intros [Hn1 [_ Hr1]] [Hn2 [_ Hr2]]. unfold union.
  set (nodes := merge_nodes update (map node_copy (nl_nodes l)) (ids l) (nl_nodes l2)).
  assert (Hids : map n_id nodes = ids l ++ filter (fun i => negb (mem i (ids l))) (ids l2)).
  { unfold nodes. rewrite merge_nodes_ids by (intros; reflexivity). rewrite map_node_copy_ids. reflexivity. }
  apply wf_clean_intro.
  - rewrite Hids. apply NoDup_merge_ids; assumption.
  - rewrite Hids. apply merge_roots_incl.
    + intros x Hx. apply in_or_app. left. auto.
    + intros x Hx. apply Hr2 in Hx. apply in_or_app.
      destruct (in_dec string_dec x (ids l)); [left; assumption|right].
      apply filter_In. split; [assumption|]. apply negb_true_iff, mem_false. assumption.
Qed.

Theorem union_norm l l2 : norm (nl_edges (union l l2)).
Proof. apply clean_edges_norm. Qed.

(* ---- Intersect --------------------------------------------------------------------- *)
Lemma first_node_Some i ns n : first_node i ns = Some n -> In n ns /\ n_id n = i.
Proof.
  unfold first_node. intros H. apply find_some in H as [H1 H2]. apply String.eqb_eq in H2. auto.
Qed.

Lemma first_node_None i ns : first_node i ns = None <-> ~ In i (map n_id ns).
Proof.
  unfold first_node. split.
  - intros H Hin. apply in_map_iff in Hin as [n [Hn Hin]].
    eapply find_none in H; [|exact Hin]. simpl in H. rewrite Hn, String.eqb_refl in H. discriminate.
  - intros H. destruct (find _ ns) as [n|] eqn:E; [|reflexivity].
    apply find_some in E as [E1 E2]. apply String.eqb_eq in E2. exfalso. apply H.
    apply in_map_iff. exists n. auto.
Qed.

Lemma first_node_In i ns : In i (map n_id ns) -> exists n, first_node i ns = Some n /\ In n ns /\ n_id n = i.
Proof.
  intros H. destruct (first_node i ns) as [n|] eqn:E.
  - exists n. split; [reflexivity|]. apply first_node_Some. assumption.
  - apply first_node_None in E. contradiction.
Qed.

Lemma last_node_Some i ns n : last_node i ns = Some n -> In n ns /\ n_id n = i.
Proof.
  unfold last_node. intros H. apply first_node_Some in H as [H1 H2]. split; [|assumption].
  apply in_rev. assumption.
Qed.

Lemma last_node_In i ns : In i (map n_id ns) -> exists n, last_node i ns = Some n.
Proof.
  intros H. unfold last_node. destruct (first_node_In i (rev ns)) as [n [Hn _]].
  - rewrite map_rev. apply -> in_rev. assumption.
  - exists n. assumption.
Qed.

Definition common_ids (l l2 : nodelist) : list string :=
  filter (fun i => mem i (ids l2)) (dedup (ids l)).

Lemma common_ids_In l l2 i : In i (common_ids l l2) <-> In i (ids l) /\ In i (ids l2).
Proof. unfold common_ids. rewrite filter_In, dedup_In, mem_In. tauto. Qed.

Lemma common_ids_NoDup l l2 : NoDup (common_ids l l2).
Proof. apply NoDup_filter, dedup_NoDup. Qed.

Lemma intersect_ids l l2 : ids (intersect l l2) = common_ids l l2.
Proof.
  unfold intersect, ids at 1. simpl. fold (common_ids l l2).
  assert (H : forall c, (forall i, In i c -> In i (ids l) /\ In i (ids l2)) ->
     map n_id (flat_map (fun i => match last_node i (nl_nodes l), last_node i (nl_nodes l2) with
                                  | Some a, Some b => [update (node_copy a) b]
                                  | _, _ => []
                                  end) c) = c).
  { induction c as [|i c IH]; intros Hc; simpl; [reflexivity|].
    destruct (Hc i (or_introl eq_refl)) as [H1 H2].
    destruct (last_node_In i (nl_nodes l) H1) as [a Ha].
    destruct (last_node_In i (nl_nodes l2) H2) as [b Hb].
    rewrite Ha, Hb. simpl. apply last_node_Some in Ha as [_ Ha]. rewrite Ha.
    f_equal. apply IH. intros j Hj. apply Hc. right; assumption. }
  apply H. intros i Hi. apply common_ids_In. assumption.
Qed.

(* Intersect yields a well-formed, normalised list from ANY operands *)
Theorem intersect_wf l l2 : wf (intersect l l2).
Proof.
  pose proof (intersect_ids l l2) as Hids.
  split; [rewrite Hids; apply common_ids_NoDup|]. split.
  - rewrite Hids. unfold intersect; simpl. fold (common_ids l l2). apply clean_edges_closed_mem.
  - rewrite Hids. unfold intersect; simpl. fold (common_ids l l2).
    intros x Hx. apply filter_In in Hx. tauto.
Qed.

Theorem intersect_norm l l2 : norm (nl_edges (intersect l l2)).
Proof. apply clean_edges_norm. Qed.

(* ---- RemoveNodes ------------------------------------------------------------------- *)
Lemma remove_ids l rm : ids (remove_nodes l rm) = filter (fun i => negb (mem i rm)) (ids l).
Proof. unfold remove_nodes, ids; simpl. apply (map_filter_ids (fun i => negb (mem i rm))). Qed.

Theorem remove_wf l rm : wf l -> wf (remove_nodes l rm).
Proof.
  intros [Hn [_ Hr]]. unfold remove_nodes. apply wf_clean_intro.
  - rewrite (map_filter_ids (fun i => negb (mem i rm))). apply NoDup_filter. assumption.
  - rewrite (map_filter_ids (fun i => negb (mem i rm))). intros x Hx. apply filter_In in Hx as [Hx1 Hx2].
    apply filter_In. split; [apply Hr; assumption|assumption].
Qed.

Theorem remove_norm l rm : norm (nl_edges (remove_nodes l rm)).
Proof. apply clean_edges_norm. Qed.

(* RemoveNodes removes exactly the named nodes, every edge mentioning them, and their
   root entries — and nothing else *)
Theorem remove_exact l rm :
  (forall i, In i (ids (remove_nodes l rm)) <-> In i (ids l) /\ ~ In i rm) /\
  (forall r, In r (nl_root_elements (remove_nodes l rm)) <-> In r (nl_root_elements l) /\ ~ In r rm) /\
  (forall f t x, InE (nl_edges (remove_nodes l rm)) f t x <->
                 InE (nl_edges l) f t x /\ (In f (ids l) /\ ~ In f rm) /\ (In x (ids l) /\ ~ In x rm)).
Proof.
  assert (Hid : forall i, In i (ids (remove_nodes l rm)) <-> In i (ids l) /\ ~ In i rm).
  { intros i. rewrite remove_ids, filter_In, negb_true_iff, mem_false. tauto. }
  split; [exact Hid|]. split.
  - intros r. unfold remove_nodes; simpl. rewrite filter_In, negb_true_iff, mem_false. tauto.
  - intros f t x. unfold remove_nodes at 1; simpl. rewrite clean_edges_InE.
    rewrite !mem_In.
    change (map n_id (filter (fun n => negb (mem (n_id n) rm)) (nl_nodes l))) with (ids (remove_nodes l rm)).
    rewrite !Hid. tauto.
Qed.

(* ---- Clean --------------------------------------------------------------------------- *)
Theorem clean_wf l : NoDup (ids l) -> incl (nl_root_elements l) (ids l) -> wf (clean l).
Proof. intros H1 H2. unfold clean. apply wf_clean_intro; assumption. Qed.

Theorem clean_norm l : norm (nl_edges (clean l)).
Proof. apply clean_edges_norm. Qed.

(* ---- RelateNodeAtID / RelateNodeListAtID ------------------------------------------- *)
Lemma add_dest_In tos new x : In x (add_dest tos new) <-> In x tos \/ In x new.
Proof.
  unfold add_dest. revert tos. induction new as [|y r IH]; intros tos; simpl; [tauto|].
  rewrite IH. destruct (mem y tos) eqn:E.
  - apply mem_In in E. split; [tauto|]. intros [H|[<-|H]]; auto.
  - rewrite in_app_iff; simpl. tauto.
Qed.

Lemma map_first_edge_In k f es e' :
  In e' (map_first_edge k f es) -> In e' es \/ exists e, In e es /\ key_of e = k /\ e' = f e.
Proof.
  induction es as [|e r IH]; simpl; [tauto|].
  destruct (ekey_eqb (key_of e) k) eqn:E.
  - intros [<-|H]; [right|left; auto]. exists e. apply ekey_eqb_eq in E. auto.
  - intros [<-|H]; [left; auto|]. destruct (IH H) as [H'|[e0 [H1 H2]]]; [left; auto|right].
    exists e0. auto.
Qed.

Lemma closed_map_first_edge (N : string -> Prop) k tosf es :
  closed N es ->
  (forall e, In e es -> forall x, In x (tosf e) -> N x) ->
  closed N (map_first_edge k (fun e => set_to (tosf e) e) es).
Proof.
  intros Hc Ht e' He'. apply map_first_edge_In in He' as [He'|[e [He [_ ->]]]].
  - apply Hc. assumption.
  - simpl. split; [apply (closed_from _ _ _ Hc He)|]. intros x Hx. apply (Ht e He). assumption.
Qed.

Theorem relate_node_wf l n a t l' : wf l -> relate_node_at l n a t = Ok l' -> wf l'.
Proof.
  intros [Hn [Hc Hr]]. unfold relate_node_at.
  destruct (has l a) eqn:Ha; simpl; [|discriminate]. intros H. injection H as <-.
  apply mem_In in Ha.
  set (nodes := if has l (n_id n) then nl_nodes l else nl_nodes l ++ [n]).
  assert (Hsub : forall i, In i (ids l) -> In i (map n_id nodes)).
  { intros i Hi. unfold nodes. destruct (has l (n_id n)); [assumption|].
    rewrite map_app. apply in_or_app. left. assumption. }
  assert (Hnew : In (n_id n) (map n_id nodes)).
  { unfold nodes. destruct (has l (n_id n)) eqn:E; [apply mem_In; assumption|].
    rewrite map_app. apply in_or_app. right. left. reflexivity. }
  split; [|split].
  - unfold ids; simpl. fold nodes. unfold nodes. destruct (has l (n_id n)) eqn:E; [assumption|].
    rewrite map_app. simpl. apply NoDup_app_intro; [assumption|repeat constructor; auto|].
    intros x Hx [<-|[]]. apply mem_false in E. contradiction.
  - unfold ids; simpl. fold nodes.
    assert (Hc' : closed (fun i => In i (map n_id nodes)) (nl_edges l)).
    { eapply closed_weaken; [|exact Hc]. exact Hsub. }
    destruct (has_key (a, t) (nl_edges l)).
    + apply closed_map_first_edge; [assumption|].
      intros e He x Hx. apply in_app_or in Hx as [Hx|[<-|[]]]; [|assumption].
      apply (closed_to _ _ _ _ Hc' He Hx).
    + apply closed_app. split; [assumption|].
      intros e [<-|[]]. simpl. split; [apply Hsub; assumption|]. intros x [<-|[]]. assumption.
  - unfold ids; simpl. fold nodes. intros x Hx. apply Hsub. apply Hr. assumption.
Qed.

Theorem relate_list_wf l l2 a t l' : wf l -> wf l2 -> relate_list_at l l2 a t = Ok l' -> wf l'.
Proof.
  intros [Hn [Hc Hr]] [Hn2 [Hc2 Hr2]]. unfold relate_list_at.
  destruct (has l a) eqn:Ha; simpl; [|discriminate]. intros H. injection H as <-.
  apply mem_In in Ha.
  set (nodes := nl_nodes l ++ filter (fun n => negb (mem (n_id n) (ids l))) (nl_nodes l2)).
  assert (Hids : map n_id nodes = ids l ++ filter (fun i => negb (mem i (ids l))) (ids l2)).
  { unfold nodes. rewrite map_app. f_equal. apply (map_filter_ids (fun i => negb (mem i (ids l)))). }
  assert (Hsub1 : forall i, In i (ids l) -> In i (map n_id nodes)).
  { intros i Hi. rewrite Hids. apply in_or_app. left. assumption. }
  assert (Hsub2 : forall i, In i (ids l2) -> In i (map n_id nodes)).
  { intros i Hi. rewrite Hids. apply in_or_app. destruct (in_dec string_dec i (ids l)); [left; assumption|right].
    apply filter_In. split; [assumption|]. apply negb_true_iff, mem_false. assumption. }
  set (N := fun i => In i (map n_id nodes)).
  assert (Hc1 : closed N (nl_edges l)) by (eapply closed_weaken; [|exact Hc]; exact Hsub1).
  assert (Hc2' : closed N (nl_edges l2)) by (eapply closed_weaken; [|exact Hc2]; exact Hsub2).
  split; [|split].
  - unfold ids; simpl. fold nodes. rewrite Hids. apply NoDup_merge_ids; assumption.
  - unfold ids; simpl. fold nodes. fold N.
    match goal with |- closed N (fold_left ?F _ ?E1) => set (F0 := F); set (edges1 := E1) end.
    assert (He1 : closed N edges1).
    { unfold edges1. destruct (has_key (a, t) (nl_edges l)).
      - apply closed_map_first_edge; [assumption|]. intros e He x Hx.
        apply add_dest_In in Hx as [Hx|Hx]; [apply (closed_to _ _ _ _ Hc1 He Hx)|].
        apply Hsub2, Hr2. assumption.
      - apply closed_app. split; [assumption|]. intros e [<-|[]]. simpl.
        split; [apply Hsub1; assumption|]. intros x Hx. apply Hsub2, Hr2. assumption. }
    clearbody edges1. clear Hc2. revert Hc2' edges1 He1.
    generalize (nl_edges l2) as es2.
    induction es2 as [|e r IH]; intros Hc2' es Hes; simpl; [assumption|].
    apply IH.
    + intros e' He'. apply Hc2'. right. assumption.
    + unfold F0. destruct (has_key (key_of e) (nl_edges l)).
      * apply closed_map_first_edge; [assumption|]. intros e0 He0 x Hx.
        apply add_dest_In in Hx as [Hx|Hx]; [apply (closed_to _ _ _ _ Hes He0 Hx)|].
        apply (closed_to _ _ _ _ Hc2' (or_introl eq_refl) Hx).
      * apply closed_app. split; [assumption|]. intros e' [<-|[]]. simpl.
        exact (Hc2' e (or_introl eq_refl)).
  - unfold ids; simpl. fold nodes. intros x Hx. apply Hsub1, Hr. assumption.
Qed.

Arguments dedup : simpl never.
Arguments mem : simpl never.

(* ---- extraction: NodeSiblings, NodeGraph, NodeDescendants, GetNodesByPurlType -------- *)
Lemma nodes_of_ids l seen :
  (forall i, In i seen -> In i (ids l)) -> map n_id (nodes_of l seen) = seen.
Proof.
  induction seen as [|i r IH]; intros H; simpl; [reflexivity|].
  destruct (first_node_In i (nl_nodes l) (H i (or_introl eq_refl))) as [n [Hn [_ Hid]]].
  rewrite Hn. simpl. rewrite Hid. f_equal. apply IH. intros j Hj. apply H. right; assumption.
Qed.

Lemma succs_in l i x : In x (succs l i) -> In x (ids l).
Proof. unfold succs. intros H. apply filter_In in H as [_ H]. apply mem_In in H. exact H. Qed.

(* an extracted list built from a duplicate-free set of existing identifiers *)
Lemma wf_extract l seen es i :
  NoDup seen -> (forall j, In j seen -> In j (ids l)) -> In i seen ->
  wf {| nl_nodes := nodes_of l seen;
        nl_edges := clean_edges (fun x => mem x seen) es;
        nl_root_elements := [i] |}.
Proof.
  intros Hnd Hin Hi. pose proof (nodes_of_ids l seen Hin) as Hids.
  split; [|split]; unfold ids; simpl; rewrite Hids.
  - assumption.
  - apply clean_edges_closed_mem.
  - intros x [<-|[]]. assumption.
Qed.

Lemma wf_extract_eq l seen es i l' :
  Ok {| nl_nodes := nodes_of l seen;
        nl_edges := clean_edges (fun x => mem x seen) es;
        nl_root_elements := [i] |} = Ok l' ->
  NoDup seen -> (forall j, In j seen -> In j (ids l)) -> In i seen ->
  wf l' /\ norm (nl_edges l').
Proof.
  intros H. injection H as <-. intros H1 H2 H3. split; [apply wf_extract; assumption|apply clean_edges_norm].
Qed.

Theorem siblings_wf l i l' : node_siblings l i = Ok l' -> wf l' /\ norm (nl_edges l').
Proof.
  unfold node_siblings. destruct (String.eqb i ""); [discriminate|].
  destruct (first_node i (nl_nodes l)) as [n|] eqn:E.
  - intros H. apply first_node_Some in E as [E1 E2].
    eapply wf_extract_eq; [exact H| | |].
    + apply dedup_NoDup.
    + intros j Hj. apply (proj1 (dedup_In _ _)) in Hj. destruct Hj as [<-|Hj].
      * apply in_map_iff. exists n. auto.
      * eapply succs_in. eassumption.
    + apply dedup_In. left. reflexivity.
  - intros H. injection H as <-. split.
    + split; [constructor|]. split; [intros e []|intros x []].
    + split; [constructor|intros e []].
Qed.

Lemma graph_round_inv l s seen :
  (forall j, In j seen -> In j (ids l)) ->
  NoDup (graph_round l s seen) /\
  (forall j, In j (graph_round l s seen) -> In j (ids l)) /\
  (forall j, In j seen -> In j (graph_round l s seen)).
Proof.
  intros H. unfold graph_round. split; [apply dedup_NoDup|]. split.
  - intros j Hj. apply dedup_In, in_app_or in Hj as [Hj|Hj]; [auto|].
    apply filter_In in Hj as [Hj _]. apply in_flat_map in Hj as [k [_ Hj]].
    destruct (String.eqb k ""); [contradiction|]. eapply succs_in. eassumption.
  - intros j Hj. apply dedup_In, in_or_app. left. assumption.
Qed.

Lemma graph_rounds_inv k l s seen :
  NoDup seen -> (forall j, In j seen -> In j (ids l)) ->
  NoDup (graph_rounds k l s seen) /\
  (forall j, In j (graph_rounds k l s seen) -> In j (ids l)) /\
  (forall j, In j seen -> In j (graph_rounds k l s seen)).
Proof.
  revert seen. induction k as [|k IH]; intros seen Hnd Hin; simpl; [auto|].
  destruct (graph_round_inv l s seen Hin) as [H1 [H2 H3]].
  destruct (IH _ H1 H2) as [I1 [I2 I3]]. auto.
Qed.

Theorem graph_wf l i l' : node_graph l i = Ok l' -> wf l' /\ norm (nl_edges l').
Proof.
  unfold node_graph. destruct (first_node i (nl_nodes l)) as [n|] eqn:E; [|discriminate].
  intros H. apply first_node_Some in E as [E1 E2].
  assert (Hi : In i (ids l)) by (apply in_map_iff; exists n; auto).
  destruct (graph_rounds_inv (length (nl_nodes l)) l i [i]) as [H1 [H2 H3]].
  - repeat constructor. intros [].
  - intros j [<-|[]]. assumption.
  - eapply wf_extract_eq; [exact H| | |]; auto. apply H3. left. reflexivity.
Qed.

Lemma desc_round_inv l s seen :
  (forall j, In j seen -> In j (ids l)) ->
  NoDup (desc_round l s seen) /\
  (forall j, In j (desc_round l s seen) -> In j (ids l)) /\
  (forall j, In j seen -> In j (desc_round l s seen)).
Proof.
  intros H. unfold desc_round. split; [apply dedup_NoDup|]. split.
  - intros j Hj. apply dedup_In, in_app_or in Hj as [Hj|Hj]; [auto|].
    apply in_flat_map in Hj as [k [_ Hj]].
    destruct (String.eqb k s || negb (is_root l k)); [|contradiction]. eapply succs_in. eassumption.
  - intros j Hj. apply dedup_In, in_or_app. left. assumption.
Qed.

Lemma desc_rounds_inv k l s seen :
  NoDup seen -> (forall j, In j seen -> In j (ids l)) ->
  NoDup (desc_rounds k l s seen) /\
  (forall j, In j (desc_rounds k l s seen) -> In j (ids l)) /\
  (forall j, In j seen -> In j (desc_rounds k l s seen)).
Proof.
  revert seen. induction k as [|k IH]; intros seen Hnd Hin; simpl; [auto|].
  destruct (desc_round_inv l s seen Hin) as [H1 [H2 H3]].
  destruct (IH _ H1 H2) as [I1 [I2 I3]]. auto.
Qed.

Theorem descendants_wf l i d : (1 <= d)%nat -> wf (node_descendants l i d).
Proof.
  intros Hd. unfold node_descendants. destruct (first_node i (nl_nodes l)) as [n|] eqn:E.
  - apply first_node_Some in E as [E1 E2].
    assert (Hi : In i (ids l)) by (apply in_map_iff; exists n; auto).
    destruct d as [|d]; [lia|].
    destruct (desc_rounds_inv d l i [i]) as [H1 [H2 H3]].
    + repeat constructor. intros [].
    + intros j [<-|[]]. assumption.
    + apply wf_extract; auto. apply H3. left. reflexivity.
  - split; [constructor|]. split; [intros e []|intros x []].
Qed.

Theorem descendants_norm l i d : norm (nl_edges (node_descendants l i d)).
Proof.
  unfold node_descendants. destruct (first_node i (nl_nodes l)); [apply clean_edges_norm|].
  split; [constructor|intros e []].
Qed.

Theorem by_purl_type_wf l pt : NoDup (ids l) -> wf (by_purl_type l pt).
Proof.
  intros Hn. unfold by_purl_type. apply wf_clean_intro.
  - set (q := fun n => String.prefix ("pkg:" ++ pt ++ "/")%string (purl n) || String.prefix ("pkg:/" ++ pt ++ "/")%string (purl n)).
    clear -Hn. unfold ids in Hn. induction (nl_nodes l) as [|n r IH]; simpl; [constructor|].
    inversion Hn as [|? ? Hx Hr]; subst.
    match goal with |- NoDup (map n_id (if ?c then _ else _)) => destruct c end; simpl; [constructor|]; auto.
    intros Hin. apply in_map_iff in Hin as [m [Hm Hin]]. apply filter_In in Hin as [Hin _].
    apply Hx. apply in_map_iff. exists m. auto.
  - intros x Hx. apply filter_In in Hx. tauto.
Qed.

Theorem by_purl_type_norm l pt : norm (nl_edges (by_purl_type l pt)).
Proof. apply clean_edges_norm. Qed.

(* ---- any sequence of operations ----------------------------------------------------------- *)
Definition op_args_wf (o : op) : Prop :=
  match o with
  | OpAdd l2 | OpUnion l2 | OpIntersect l2 => wf l2
  | OpRelateList l2 _ _ => wf l2
  | OpDescendants _ d => (1 <= d)%nat
  | _ => True
  end.

Theorem step_wf l o : wf l -> op_args_wf o -> wf (step l o).
Proof.
  intros Hl Ho. destruct o; simpl in *.
  - destruct Hl as [H1 [_ H3]]. apply clean_wf; assumption.
  - apply add_wf; assumption.
  - apply union_wf; assumption.
  - apply intersect_wf.
  - apply remove_wf; assumption.
  - destruct (relate_node_at l n at_ t) as [l'| | |] eqn:E; simpl; try assumption.
    exact (relate_node_wf _ _ _ _ _ Hl E).
  - destruct (relate_list_at l l2 at_ t) as [l'| | |] eqn:E; simpl; try assumption.
    exact (relate_list_wf _ _ _ _ _ Hl Ho E).
  - destruct (node_siblings l i) as [l'| | |] eqn:E; simpl; try assumption.
    apply siblings_wf in E. tauto.
  - destruct (node_graph l i) as [l'| | |] eqn:E; simpl; try assumption.
    apply graph_wf in E. tauto.
  - apply descendants_wf. assumption.
  - destruct Hl as [H1 _]. apply by_purl_type_wf. assumption.
Qed.

Theorem ops_preserve_wf ops : forall l, wf l -> Forall op_args_wf ops -> wf (fold_left step ops l).
Proof.
  induction ops as [|o r IH]; intros l Hl Ho; simpl; [assumption|].
  inversion Ho as [|? ? Ho1 Ho2]; subst. apply IH; [|assumption]. apply step_wf; assumption.
Qed.

(* merge, removal and extraction results are normalised *)
Definition normalising (o : op) : bool :=
  match o with
  | OpRelateNode _ _ _ | OpRelateList _ _ _ => false
  | _ => true
  end.

Theorem step_norm l o :
  normalising o = true ->
  match o with
  | OpSiblings i => forall l', node_siblings l i = Ok l' -> norm (nl_edges l')
  | OpGraph i => forall l', node_graph l i = Ok l' -> norm (nl_edges l')
  | _ => norm (nl_edges (step l o))
  end.
Proof.
  intros Hn. destruct o; simpl in *; try discriminate; try apply clean_edges_norm.
  - intros l' E. apply siblings_wf in E. tauto.
  - intros l' E. apply graph_wf in E. tauto.
  - apply descendants_norm.
Qed.

(* ---- pools of live graphs ------------------------------------------------------------ *)
Lemma wf_empty : wf empty_nl.
Proof.
  split; [constructor|]. split; [intros e He; destruct He | intros r Hr; destruct Hr].
Qed.

Lemma Forall_nth_wf p n : Forall wf p -> wf (nth n p empty_nl).
Proof.
  intros H. revert n. induction H as [|x r Hx Hr IH]; intros [|n]; simpl; try exact wf_empty; [exact Hx|apply IH].
Qed.

Lemma Forall_set_nth {A} (P : A -> Prop) n x l : Forall P l -> P x -> Forall P (set_nth n x l).
Proof.
  intros H Hx. revert n. induction H as [|y r Hy Hr IH]; intros n; simpl; [destruct n; constructor|].
  destruct n as [|n]; constructor; try assumption. apply IH.
Qed.

(* an operation whose list argument comes from the pool needs nothing of that argument
   beyond what the pool already guarantees; its other arguments (the depth bound) are as before *)
Definition pop_wf (po : pop) : Prop :=
  match po_arg po with
  | Some _ => forall l2, wf l2 -> op_args_wf (with_arg (po_op po) l2)
  | None => op_args_wf (po_op po)
  end.

Theorem relate_self_wf l a t l' : wf l -> relate_self_at l a t = Ok l' -> wf l'.
Proof.
  intros [Hn [Hc Hr]]. unfold relate_self_at.
  destruct (has l a) eqn:Ha; simpl; [|discriminate]. intros H. injection H as <-.
  apply mem_In in Ha.
  set (N := fun i => In i (ids l)).
  split; [|split]; [exact Hn| |exact Hr].
  unfold ids; simpl. fold (ids l). fold N.
  match goal with |- closed N (fold_left ?F ?E1 ?E1) => set (F0 := F); set (edges1 := E1) end.
  assert (He1 : closed N edges1).
  { unfold edges1. destruct (has_key (a, t) (nl_edges l)).
    - apply closed_map_first_edge; [assumption|]. intros e He x Hx.
      apply add_dest_In in Hx as [Hx|Hx]; [apply (closed_to _ _ _ _ Hc He Hx)|].
      apply Hr. assumption.
    - apply closed_app. split; [assumption|]. intros e [<-|[]]. simpl.
      split; [exact Ha|]. intros x Hx. apply Hr. assumption. }
  clearbody edges1.
  assert (G : forall es2, closed N es2 -> forall es, closed N es -> closed N (fold_left F0 es2 es)).
  { induction es2 as [|e r IH]; intros Hc2 es Hes; simpl; [assumption|].
    apply IH.
    - intros e' He'. apply Hc2. right. assumption.
    - unfold F0. destruct (has_key (key_of e) (nl_edges l)).
      + apply closed_map_first_edge; [assumption|]. intros e0 He0 x Hx.
        apply add_dest_In in Hx as [Hx|Hx]; [apply (closed_to _ _ _ _ Hes He0 Hx)|].
        apply (closed_to _ _ _ _ Hc2 (or_introl eq_refl) Hx).
      + apply closed_app. split; [assumption|]. intros e' [<-|[]]. simpl.
        exact (Hc2 e (or_introl eq_refl)). }
  apply G; assumption.
Qed.

Lemma pool_result_wf p po : Forall wf p -> pop_wf po -> wf (pool_result p po).
Proof.
  intros Hp Ho.
  assert (Hl : wf (nth (po_recv po) p empty_nl)) by (apply Forall_nth_wf; exact Hp).
  assert (Hstep : wf (step (nth (po_recv po) p empty_nl) (pool_op p po))).
  { apply step_wf; [exact Hl|].
    unfold pool_op, pop_wf in *. destruct (po_arg po) as [a|]; [|exact Ho].
    apply Ho. apply Forall_nth_wf. exact Hp. }
  unfold pool_result. destruct (po_arg po) as [a|]; [|exact Hstep].
  destruct (po_op po); try exact Hstep.
  destruct (Nat.eqb a (po_recv po)); [|exact Hstep].
  destruct (relate_self_at (nth (po_recv po) p empty_nl) at_ t) as [l'| | |] eqn:E; simpl; try exact Hl.
  exact (relate_self_wf _ _ _ _ Hl E).
Qed.

Theorem pool_step_wf p po : Forall wf p -> pop_wf po -> Forall wf (pool_step p po).
Proof.
  intros Hp Ho. unfold pool_step. apply Forall_set_nth; [exact Hp|].
  apply pool_result_wf; assumption.
Qed.

Theorem pool_ops_preserve_wf pops : forall p, Forall wf p -> Forall pop_wf pops -> Forall wf (fold_left pool_step pops p).
Proof.
  induction pops as [|o r IH]; intros p Hp Ho; simpl; [assumption|].
  inversion Ho as [|? ? Ho1 Ho2]; subst. apply IH; [|assumption]. apply pool_step_wf; assumption.
Qed.

(* the frame: a step leaves every slot other than its destination exactly as it was *)
Lemma nth_set_nth_other {A} (d : A) n m x l : n <> m -> nth m (set_nth n x l) d = nth m l d.
Proof.
  revert n m. induction l as [|y r IH]; intros n m Hnm; [destruct n; reflexivity|].
  destruct n as [|n]; destruct m as [|m]; simpl; try reflexivity; try congruence.
  apply IH. congruence.
Qed.

Theorem pool_step_frame p po j : j <> po_dst po -> nth j (pool_step p po) empty_nl = nth j p empty_nl.
Proof. intros H. unfold pool_step. apply nth_set_nth_other. congruence. Qed.

Lemma set_nth_length {A} n (x : A) l : length (set_nth n x l) = length l.
Proof. revert n. induction l as [|y r IH]; intros [|n]; simpl; try reflexivity. f_equal. apply IH. Qed.
