(* C01 — SPDX 2.3 write-then-read round trip preserves the SBOM graph. Statements only; proofs in
   Proofs/SpdxFacts.v.  The model (Model/Spdx.v) has three stages, each compared with the real code
   on every run: spdx_ser (Serialize), spdx_chan (tools-golang JSON encode+decode), spdx_unser_nl
   (Unserialize).  RFC 3339 formatting/parsing is a pair of parameters with the premise
   parse (fmt t) = t truncated to the second. *)
From Verif Require Import Model.Base Model.Node Model.Graph Model.Match Model.Flat Model.Spdx Gen.Tables Proofs.SpdxFacts.
Open Scope list_scope.

(* all 44 relationship types and all 16 shared checksum algorithms survive exactly *)
Theorem C01_relationship_types : forallb (fun t => Z.eqb (edge_from_spdx2 (edge_to_spdx2 t)) t) Edge_Type_values = true
  /\ length (filter (fun t => negb (Z.eqb t 0)) Edge_Type_values) = 44%nat.
Proof. split; [exact edge_types_roundtrip|exact edge_types_count]. Qed.
Print Assumptions C01_relationship_types.

Theorem C01_checksum_algorithms :
  forallb (fun a => match hash_to_spdx a with "" => true | s => Z.eqb (hash_from_spdx s) a end) HashAlgorithm_values = true
  /\ length (filter (fun a => negb (String.eqb (hash_to_spdx a) "")) HashAlgorithm_values) = 16%nat.
Proof. exact checksum_algos_roundtrip. Qed.
Print Assumptions C01_checksum_algorithms.

(* graph: every document of the class comes back with the same nodes and kinds, the same typed
   edges (one target per edge) and the same root elements — any graph shape *)
Theorem C01_roundtrip_graph : forall fmt_time parse_time self d md nl,
  spdx_class d md nl ->
  exists nl',
    spdx_roundtrip fmt_time parse_time self d = Ok nl' /\
    map (fun n => (n_id n, n_type n)) (nl_nodes nl')
      = map (fun n => (n_id n, Node_NodeType_PACKAGE)) (pkgs_of nl) ++ map (fun n => (n_id n, Node_NodeType_FILE)) (files_of nl) /\
    nl_edges nl' = unit_edges nl /\
    nl_root_elements nl' = nl_root_elements nl.
Proof. exact spdx_roundtrip_graph. Qed.
Print Assumptions C01_roundtrip_graph.

(* per node: the attributes SPDX 2.3 carries, with the NOASSERTION / NONE / trimming conventions
   and dates to the second *)
Theorem C01_package_attributes : forall fmt_time parse_time,
  (forall t, parse_time (fmt_time t) = Some (fst t, 0) /\ fmt_time t <> "") ->
  forall n, let n' := pkg_to_node parse_time (node_to_pkg fmt_time n) in
    n_id n' = n_id n /\ n_name n' = n_name n /\ n_version n' = n_version n /\ n_file_name n' = n_file_name n /\
    n_url_home n' = n_url_home n /\ n_url_download n' = conv_download (n_url_download n) /\
    n_license_concluded n' = conv_concluded (n_license_concluded n) /\
    n_license_comments n' = n_license_comments n /\ n_copyright n' = trim (n_copyright n) /\
    n_source_info n' = n_source_info n /\ n_comment n' = n_comment n /\ n_summary n' = n_summary n /\
    n_description n' = n_description n /\ n_attribution n' = n_attribution n /\
    n_release_date n' = conv_date (n_release_date n) /\ n_build_date n' = conv_date (n_build_date n) /\
    n_valid_until_date n' = conv_date (n_valid_until_date n).
Proof. exact spdx_package_attributes. Qed.
Print Assumptions C01_package_attributes.

Theorem C01_file_attributes : forall n, let n' := file_to_node (node_to_file n) in
    n_id n' = n_id n /\ n_name n' = n_name n /\ n_license_concluded n' = n_license_concluded n /\
    n_license_comments n' = n_license_comments n /\ n_comment n' = n_comment n /\ n_file_types n' = n_file_types n /\
    n_copyright n' = (if String.eqb (trim (n_copyright n)) "" then NONE else trim (n_copyright n)).
Proof. exact spdx_file_attributes. Qed.
Print Assumptions C01_file_attributes.

(* checksum maps over the 16 algorithms SPDX 2.3 spells come back unchanged, for packages and files *)
Theorem C01_package_checksums : forall parse_time fmt_time n, spdx_hash_class (n_hashes n) ->
  n_hashes (pkg_to_node parse_time (node_to_pkg fmt_time n)) = n_hashes n.
Proof. exact spdx_package_hashes. Qed.
Print Assumptions C01_package_checksums.

Theorem C01_file_checksums : forall n, spdx_hash_class (n_hashes n) ->
  n_hashes (file_to_node (node_to_file n)) = n_hashes n.
Proof. exact spdx_file_hashes. Qed.
Print Assumptions C01_file_checksums.

(* external references of the reference types SPDX carries (URL, comment, type) and package identifiers
   of the four kinds SPDX spells (purl, CPE 2.2, CPE 2.3, gitoid) come back unchanged — both travel
   in one externalRefs list and are told apart again on reading *)
Theorem C01_package_external_references : forall parse_time fmt_time n,
  Forall spdx_extref_class (n_external_references n) -> spdx_ident_class (n_identifiers n) ->
  n_external_references (pkg_to_node parse_time (node_to_pkg fmt_time n)) = n_external_references n.
Proof. exact spdx_package_external_references. Qed.
Print Assumptions C01_package_external_references.

Theorem C01_package_identifiers : forall parse_time fmt_time n,
  Forall spdx_extref_class (n_external_references n) -> spdx_ident_class (n_identifiers n) ->
  n_identifiers (pkg_to_node parse_time (node_to_pkg fmt_time n)) = n_identifiers n.
Proof. exact spdx_package_identifiers. Qed.
Print Assumptions C01_package_identifiers.

Theorem C01_identifier_kinds_in_class : forallb ident_kind_ok
  [SoftwareIdentifierType_PURL; SoftwareIdentifierType_CPE22; SoftwareIdentifierType_CPE23; SoftwareIdentifierType_GITOID] = true.
Proof. exact four_identifier_kinds. Qed.
Print Assumptions C01_identifier_kinds_in_class.

(* first supplier and first originator *)
Theorem C01_first_supplier_and_originator : forall parse_time p r,
  client_string p <> "" -> client_string p <> NOASSERTION ->
  let n := pkg_to_node parse_time
             {| sp_id := ""; sp_name := ""; sp_version := ""; sp_file_name := ""; sp_supplier := actor_of (p :: r);
                sp_originator := actor_of (p :: r); sp_download := ""; sp_checksums := []; sp_home := "";
                sp_source_info := ""; sp_lic_concluded := ""; sp_lic_comments := ""; sp_copyright := "";
                sp_summary := ""; sp_description := ""; sp_comment := ""; sp_extrefs := []; sp_attribution := [];
                sp_purpose := ""; sp_release := ""; sp_built := ""; sp_valid := "" |} in
  n_suppliers n = [mk_person_named (client_string p) (p_is_org p)] /\
  n_originators n = [mk_person_named (client_string p) (p_is_org p)].
Proof. exact spdx_actor_roundtrip. Qed.
Print Assumptions C01_first_supplier_and_originator.

(* native primary purposes, the eight external reference types SPDX carries (OTHER otherwise),
   the four identifier kinds: by computation over the generated tables *)
Theorem C01_purposes : forallb (fun p => Z.eqb (spdx_purpose_rt p) p)
    [Purpose_APPLICATION; Purpose_FRAMEWORK; Purpose_LIBRARY; Purpose_CONTAINER; Purpose_OPERATING_SYSTEM;
     Purpose_DEVICE; Purpose_FIRMWARE; Purpose_SOURCE; Purpose_ARCHIVE; Purpose_FILE; Purpose_INSTALL; Purpose_OTHER] = true
  /\ forallb (fun p => Z.eqb (spdx_purpose_rt (spdx_purpose_rt p)) (spdx_purpose_rt p)) Purpose_values = true.
Proof. exact native_purposes_roundtrip. Qed.
Print Assumptions C01_purposes.

Theorem C01_external_reference_types :
  forallb (fun t => Z.eqb (spdx_extref_rt t) t)
    [ExternalReference_ExternalReferenceType_BOWER; ExternalReference_ExternalReferenceType_MAVEN_CENTRAL;
     ExternalReference_ExternalReferenceType_NPM; ExternalReference_ExternalReferenceType_NUGET;
     ExternalReference_ExternalReferenceType_SECURITY_ADVISORY; ExternalReference_ExternalReferenceType_SECURITY_FIX;
     ExternalReference_ExternalReferenceType_SECURITY_OTHER; ExternalReference_ExternalReferenceType_OTHER] = true
  /\ forallb (fun t => (Z.eqb (spdx_extref_rt t) t || Z.eqb (spdx_extref_rt t) ExternalReference_ExternalReferenceType_OTHER)%bool)
       ExternalReference_ExternalReferenceType_values = true.
Proof. exact extref_types_roundtrip. Qed.
Print Assumptions C01_external_reference_types.

Theorem C01_identifier_kinds :
  forallb (fun k =>
      let '(ty, isid, bad) := extref_enum (zlook ident_to_spdx2_category_tab ident_to_spdx2_category_default k)
                                          (zlook ident_to_spdx2_type_tab ident_to_spdx2_type_default k) in
      (isid && negb bad && Z.eqb (slook spdx_ident_type_tab 0 (zlook ident_to_spdx2_type_tab ident_to_spdx2_type_default k)) k)%bool)
    [SoftwareIdentifierType_PURL; SoftwareIdentifierType_CPE22; SoftwareIdentifierType_CPE23; SoftwareIdentifierType_GITOID] = true.
Proof. exact identifier_kinds_roundtrip. Qed.
Print Assumptions C01_identifier_kinds.

(* a second pass changes the graph no further: the edges read back are already one-target edges *)
Theorem C01_second_pass_graph : forall nl,
  unit_edges {| nl_nodes := nl_nodes nl; nl_edges := unit_edges nl; nl_root_elements := nl_root_elements nl |} = unit_edges nl.
Proof. exact unit_edges_idem. Qed.
Print Assumptions C01_second_pass_graph.

(* non-vacuity: a two-node cyclic document with a self loop and two roots is in the class *)
Definition nd (i : string) (ty : Z) : node :=
  {| n_id := i; n_type := ty; n_name := "n"; n_version := ""; n_file_name := ""; n_url_home := "";
     n_url_download := ""; n_licenses := []; n_license_concluded := ""; n_license_comments := "";
     n_copyright := ""; n_source_info := ""; n_comment := ""; n_summary := ""; n_description := "";
     n_attribution := []; n_suppliers := []; n_originators := []; n_release_date := None;
     n_build_date := None; n_valid_until_date := None; n_external_references := [];
     n_file_types := []; n_identifiers := []; n_hashes := []; n_primary_purpose := [] |}.
Definition ex_md : metadata := {| md_id := "x"; md_version := "1"; md_name := "doc"; md_date := None; md_tools := []; md_authors := []; md_comment := ""; md_documentTypes := [] |}.
Definition ex_nl : nodelist :=
  {| nl_nodes := [nd "a" 0; nd "b" 1];
     nl_edges := [ {| e_type := 5; e_from := "a"; e_to := ["b"; "a"] |}; {| e_type := 10; e_from := "b"; e_to := ["a"] |} ];
     nl_root_elements := ["a"; "b"] |}.
Example C01_class_inhabited :
  spdx_class {| d_metadata := Some ex_md; d_node_list := Some ex_nl |} ex_md ex_nl /\
  option_map (fun nl' => length (nl_edges nl'))
    (match spdx_roundtrip (fun _ => "T") (fun _ => None) "self" {| d_metadata := Some ex_md; d_node_list := Some ex_nl |} with Ok x => Some x | _ => None end) = Some 3%nat.
Proof.
  split; [|vm_compute; reflexivity].
  assert (Hid : forall i, i = "a" \/ i = "b" -> id_ok i) by (intros i [->| ->]; repeat split; discriminate).
  constructor; try reflexivity.
  - intros n [<-|[<-|[]]]; simpl; auto.
  - intros n [<-|[<-|[]]]; apply Hid; simpl; auto.
  - assert (H5 : In 5 Edge_Type_values) by (vm_compute; do 5 right; left; reflexivity).
    assert (H10 : In 10 Edge_Type_values) by (vm_compute; do 10 right; left; reflexivity).
    intros e [<-|[<-|[]]]; simpl; (split; [apply Hid; auto|split; [assumption|]]);
      intros x Hx; apply Hid; simpl in Hx; intuition.
  - intros r [<-|[<-|[]]]; apply Hid; auto.
  - intros n [<-|[<-|[]]]; simpl; auto.
Qed.
