(* Facts about the object-graph model (Model/Heap.v): a deep copy only allocates (frame), what it
   returns lives entirely in fresh locations (separation), and a store to a location a value does not
   reach does not change what a snapshot of that value sees (independence). *)
From Coq Require Import Lia.
From Verif Require Import Model.Base Model.Heap.
Open Scope list_scope.

(* ---- reachability as a relation ------------------------------------------------------------------- *)
Inductive Reach (h : heap) : hval -> loc -> Prop :=
  | R_here v l : ptr_of v = Some l -> Reach h v l
  | R_step v l c w m : ptr_of v = Some l -> hget h l = Some c -> In w (cell_vals c) -> Reach h w m -> Reach h v m.

(* keys are the positions: what heapview produces and what alloc maintains *)
Definition dense (h : heap) : Prop := forall i l c, nth_error h i = Some (l, c) -> l = Z.of_nat i.

Lemma hget_In h l c : hget h l = Some c -> In (l, c) h.
Proof.
  induction h as [|[k c0] r IH]; simpl; [discriminate|].
  destruct (Z.eqb k l) eqn:E; intros H.
  - apply Z.eqb_eq in E. injection H as <-. subst. left. reflexivity.
  - right. exact (IH H).
Qed.

Lemma dense_bound h l c : dense h -> In (l, c) h -> 0 <= l < Z.of_nat (length h).
Proof.
  intros Hd Hin. apply In_nth_error in Hin as [i Hi]. pose proof (Hd i l c Hi) as ->.
  assert (i < length h)%nat by (apply nth_error_Some; rewrite Hi; discriminate). lia.
Qed.

Lemma hget_app_old h new l c : hget h l = Some c -> hget (h ++ new) l = Some c.
Proof.
  induction h as [|[k c0] r IH]; simpl; [discriminate|]. destruct (Z.eqb k l); [auto|exact IH].
Qed.

Lemma hget_app_none h new l : hget h l = None -> hget (h ++ new) l = hget new l.
Proof.
  induction h as [|[k c0] r IH]; simpl; [reflexivity|]. destruct (Z.eqb k l); [discriminate|exact IH].
Qed.

Lemma hget_none_fresh h l : dense h -> Z.of_nat (length h) <= l -> hget h l = None.
Proof.
  intros Hd Hl. destruct (hget h l) eqn:E; [|reflexivity].
  apply hget_In in E. pose proof (dense_bound h l h0 Hd E). lia.
Qed.

Lemma dense_alloc h c : dense h -> dense (snd (alloc h c)).
Proof.
  intros Hd i l c0. unfold alloc; cbn [snd]. intros H.
  destruct (Nat.lt_ge_cases i (length h)) as [Hi|Hi].
  - rewrite nth_error_app1 in H by exact Hi. exact (Hd i l c0 H).
  - rewrite nth_error_app2 in H by exact Hi. destruct (i - length h)%nat eqn:E; simpl in H.
    + injection H as <- <-. f_equal. lia.
    + destruct n; discriminate.
Qed.

(* ---- frame: a deep copy only appends cells ----------------------------------------------------- *)
Definition extends (h h' : heap) : Prop := exists new, h' = h ++ new.

Lemma extends_refl h : extends h h.
Proof. exists []. rewrite app_nil_r. reflexivity. Qed.

Lemma extends_trans a b c : extends a b -> extends b c -> extends a c.
Proof. intros [n1 ->] [n2 ->]. exists (n1 ++ n2). rewrite app_assoc. reflexivity. Qed.

Lemma extends_alloc h c : extends h (snd (alloc h c)).
Proof. unfold alloc; cbn [snd]. eexists. reflexivity. Qed.

(* the local list copier of dcopy, named *)
Fixpoint copy_list (f : nat) (vs : list hval) (h : heap) : list hval * heap :=
  match vs with
  | [] => ([], h)
  | x :: r => let '(x', h1) := dcopy f h x in let '(r', h2) := copy_list f r h1 in (x' :: r', h2)
  end.

Lemma dcopy_S f h v : dcopy (S f) h v =
  match v with
  | HPtr l =>
      match hget h l with
      | Some (HMsg k fs) => let '(fs', h1) := copy_list f (fix_fields k 0 fs) h in
                            let '(l', h2) := alloc h1 (HMsg k fs') in (HPtr l', h2)
      | Some (HArr es) => let '(es', h1) := copy_list f es h in
                          let '(l', h2) := alloc h1 (HArr es') in (HPtr l', h2)
      | _ => (HNil, h)
      end
  | HSl l n =>
      match hget h l with
      | Some (HArr es) => let '(es', h1) := copy_list f (firstn (Z.to_nat n) es) h in
                          let '(l', h2) := alloc h1 (HArr es') in (HSl l' n, h2)
      | _ => (HNil, h)
      end
  | HMp l =>
      match hget h l with
      | Some (HMap kvs) => let '(l', h1) := alloc h (HMap kvs) in (HMp l', h1)
      | _ => (HNil, h)
      end
  | _ => (v, h)
  end.
Proof.
  cbn [dcopy].
  assert (E : forall vs h0, (fix go (vs : list hval) (h : heap) : list hval * heap :=
                               match vs with
                               | [] => ([], h)
                               | x :: r => let '(x', h1) := dcopy f h x in let '(r', h2) := go r h1 in (x' :: r', h2)
                               end) vs h0 = copy_list f vs h0).
  { induction vs as [|x r IH]; intros h0; [reflexivity|]. cbn [copy_list]. destruct (dcopy f h0 x). rewrite IH. reflexivity. }
  destruct v; try reflexivity; destruct (hget h l) as [[k fs|es|kvs]|]; try reflexivity; rewrite E; reflexivity.
Qed.

(* what is known about a value returned by the copier, relative to the size n of the heap it started from *)
Definition fresh_from (n : Z) (v : hval) : Prop :=
  match ptr_of v with Some l => n <= l | None => True end.

Definition cells_fresh (n : Z) (new : heap) : Prop :=
  forall l c, In (l, c) new -> forall w, In w (cell_vals c) -> fresh_from n w.

Definition copy_post (h : heap) (v' : hval) (h' : heap) : Prop :=
  exists new, h' = h ++ new /\ dense h' /\ fresh_from (Z.of_nat (length h)) v' /\ cells_fresh (Z.of_nat (length h)) new.

Lemma copy_post_weaken h0 h v' h' new0 : h = h0 ++ new0 -> cells_fresh (Z.of_nat (length h0)) new0 ->
  copy_post h v' h' -> copy_post h0 v' h'.
Proof.
  intros -> Hc0 [new [-> [Hd [Hf Hc]]]]. exists (new0 ++ new). rewrite app_assoc. split; [reflexivity|].
  split; [exact Hd|]. rewrite app_length, Nat2Z.inj_add in *.
  split.
  - unfold fresh_from in *. destruct (ptr_of v'); [lia|exact I].
  - intros l c Hin w Hw. apply in_app_or in Hin as [Hin|Hin]; [exact (Hc0 l c Hin w Hw)|].
    specialize (Hc l c Hin w Hw). unfold fresh_from in *. destruct (ptr_of w); [lia|exact I].
Qed.

Lemma alloc_post h c : dense h -> (forall w, In w (cell_vals c) -> fresh_from (Z.of_nat (length h)) w) ->
  let '(l, h') := alloc h c in l = Z.of_nat (length h) /\ h' = h ++ [(l, c)] /\ dense h'.
Proof.
  intros Hd Hc. unfold alloc. split; [reflexivity|]. split; [reflexivity|]. exact (dense_alloc h c Hd).
Qed.

Lemma dcopy_post : forall fuel h v, dense h ->
  let '(v', h') := dcopy fuel h v in copy_post h v' h' \/ (ptr_of v = None /\ v' = v /\ h' = h) \/ (v' = HNil /\ h' = h).
Proof.
  induction fuel as [|f IH]; intros h v Hd.
  - cbn [dcopy]. right. right. split; reflexivity.
  - assert (Hlist : forall vs h0, dense h0 ->
              let '(vs', h1) := copy_list f vs h0 in
              exists new, h1 = h0 ++ new /\ dense h1 /\ cells_fresh (Z.of_nat (length h0)) new /\
                          forall w, In w vs' -> fresh_from (Z.of_nat (length h0)) w \/ ptr_of w = None).
    { induction vs as [|x r IHr]; intros h0 Hd0; cbn [copy_list].
      - exists []. rewrite app_nil_r. split; [reflexivity|]. split; [exact Hd0|]. split; [intros l c []|intros w []].
      - specialize (IH h0 x Hd0). destruct (dcopy f h0 x) as [x' h1].
        assert (Hx : exists n1, h1 = h0 ++ n1 /\ dense h1 /\ cells_fresh (Z.of_nat (length h0)) n1 /\
                                (fresh_from (Z.of_nat (length h0)) x' \/ ptr_of x' = None)).
        { destruct IH as [[new [-> [Hd1 [Hf Hc]]]]|[[Hn [-> ->]]|[-> ->]]].
          - exists new. repeat split; try assumption. left. exact Hf.
          - exists []. rewrite app_nil_r. repeat split; try assumption; [intros l c []|right; exact Hn].
          - exists []. rewrite app_nil_r. repeat split; try assumption; [intros l c []|right; reflexivity]. }
        destruct Hx as [n1 [-> [Hd1 [Hc1 Hx']]]].
        specialize (IHr (h0 ++ n1) Hd1). destruct (copy_list f r (h0 ++ n1)) as [r' h2].
        destruct IHr as [n2 [-> [Hd2 [Hc2 Hr']]]].
        exists (n1 ++ n2). rewrite app_assoc. split; [reflexivity|]. split; [exact Hd2|].
        rewrite app_length, Nat2Z.inj_add in *. split.
        + intros l c Hin w Hw. apply in_app_or in Hin as [Hin|Hin]; [exact (Hc1 l c Hin w Hw)|].
          specialize (Hc2 l c Hin w Hw). unfold fresh_from in *. destruct (ptr_of w); [lia|exact I].
        + intros w [<-|Hw]; [exact Hx'|]. destruct (Hr' w Hw) as [H|H]; [left|right; exact H].
          unfold fresh_from in *. destruct (ptr_of w); [lia|exact I]. }
    assert (Hfin : forall vs h0 c vs', dense h0 -> cell_vals c = vs' ->
              (let '(vs'', h1) := copy_list f vs h0 in vs'' = vs' -> 
               let '(l', h2) := alloc h1 c in
               exists new, h2 = h0 ++ new /\ dense h2 /\ cells_fresh (Z.of_nat (length h0)) new /\ Z.of_nat (length h0) <= l')).
    { intros vs h0 c vs' Hd0 Hcv. specialize (Hlist vs h0 Hd0). destruct (copy_list f vs h0) as [vs'' h1].
      destruct Hlist as [n1 [-> [Hd1 [Hc1 Hv]]]]. intros ->. unfold alloc.
      exists (n1 ++ [(Z.of_nat (length (h0 ++ n1)), c)]). rewrite app_assoc. split; [reflexivity|].
      split; [exact (dense_alloc (h0 ++ n1) c Hd1)|]. split; [|rewrite app_length; lia].
      intros l c0 Hin w Hw. apply in_app_or in Hin as [Hin|[E|[]]]; [exact (Hc1 l c0 Hin w Hw)|].
      injection E as <- <-. rewrite Hcv in Hw. destruct (Hv w Hw) as [H|H]; [exact H|].
      unfold fresh_from. rewrite H. exact I. }
    rewrite dcopy_S. destruct v as [s|z|b| | |l|l n|l]; try (right; left; repeat split; reflexivity).
    + destruct (hget h l) as [[k fs|es|kvs]|]; try (right; right; split; reflexivity).
      * specialize (Hfin (fix_fields k 0 fs) h). destruct (copy_list f (fix_fields k 0 fs) h) as [fs' h1].
        specialize (Hfin (HMsg k fs') fs' Hd eq_refl eq_refl). destruct (alloc h1 (HMsg k fs')) as [l' h2].
        destruct Hfin as [new [-> [Hd2 [Hc Hl]]]]. left. exists new. repeat split; assumption.
      * specialize (Hfin es h). destruct (copy_list f es h) as [es' h1].
        specialize (Hfin (HArr es') es' Hd eq_refl eq_refl). destruct (alloc h1 (HArr es')) as [l' h2].
        destruct Hfin as [new [-> [Hd2 [Hc Hl]]]]. left. exists new. repeat split; assumption.
    + destruct (hget h l) as [[k fs|es|kvs]|]; try (right; right; split; reflexivity).
      specialize (Hfin (firstn (Z.to_nat n) es) h). destruct (copy_list f (firstn (Z.to_nat n) es) h) as [es' h1].
      specialize (Hfin (HArr es') es' Hd eq_refl eq_refl). destruct (alloc h1 (HArr es')) as [l' h2].
      destruct Hfin as [new [-> [Hd2 [Hc Hl]]]]. left. exists new. repeat split; assumption.
    + destruct (hget h l) as [[k fs|es|kvs]|]; try (right; right; split; reflexivity).
      unfold alloc. left. exists [(Z.of_nat (length h), HMap kvs)]. split; [reflexivity|].
      split; [exact (dense_alloc h (HMap kvs) Hd)|]. split; [cbn; lia|].
      intros l0 c [E|[]] w Hw. injection E as <- <-. destruct Hw.
Qed.

(* ---- separation: the copy lives in fresh locations, the source in old ones ---------------------- *)
Lemma In_new_fresh h new l c : dense (h ++ new) -> In (l, c) new -> Z.of_nat (length h) <= l.
Proof.
  intros Hd Hin. apply In_nth_error in Hin as [j Hj].
  assert (H : nth_error (h ++ new) (length h + j) = Some (l, c)).
  { rewrite nth_error_app2 by lia. replace (length h + j - length h)%nat with j by lia. exact Hj. }
  pose proof (Hd _ _ _ H). lia.
Qed.

Lemma dense_prefix h new : dense (h ++ new) -> dense h.
Proof.
  intros Hd i l c H. apply (Hd i l c). rewrite nth_error_app1; [exact H|].
  apply nth_error_Some. rewrite H. discriminate.
Qed.

Lemma fresh_region h new v : dense (h ++ new) -> cells_fresh (Z.of_nat (length h)) new ->
  fresh_from (Z.of_nat (length h)) v -> forall l, Reach (h ++ new) v l -> Z.of_nat (length h) <= l.
Proof.
  intros Hd Hc Hv l HR. induction HR as [v l Hp|v l c w m Hp Hg Hw HR IH].
  - unfold fresh_from in Hv. rewrite Hp in Hv. exact Hv.
  - apply IH. unfold fresh_from in Hv. rewrite Hp in Hv.
    destruct (hget h l) eqn:E.
    + apply hget_In in E. pose proof (dense_bound h l h0 (dense_prefix h new Hd) E). lia.
    + rewrite (hget_app_none h new l E) in Hg. apply hget_In in Hg. exact (Hc l c Hg w Hw).
Qed.

(* every pointer stored in the heap names a location of the heap *)
Definition closed_heap (h : heap) : Prop :=
  forall l c w m, In (l, c) h -> In w (cell_vals c) -> ptr_of w = Some m -> 0 <= m < Z.of_nat (length h).

Lemma old_region h new v : dense (h ++ new) -> closed_heap h ->
  (forall m, ptr_of v = Some m -> 0 <= m < Z.of_nat (length h)) ->
  forall l, Reach (h ++ new) v l -> l < Z.of_nat (length h).
Proof.
  intros Hd Hc Hv l HR. induction HR as [v l Hp|v l c w m Hp Hg Hw HR IH].
  - apply Hv. exact Hp.
  - apply IH. intros m' Hm'. pose proof (Hv l Hp) as Hl.
    destruct (hget h l) eqn:E.
    + rewrite (hget_app_old h new l h0 E) in Hg. injection Hg as <-. apply hget_In in E. exact (Hc l h0 w m' E Hw Hm').
    + rewrite (hget_app_none h new l E) in Hg. apply hget_In in Hg. pose proof (In_new_fresh h new l c Hd Hg). lia.
Qed.

(* the copy of a value and the value share no location; the heap the source lives in is untouched *)
Theorem copy_frame_and_separation h v v' h' :
  dense h -> closed_heap h -> (forall m, ptr_of v = Some m -> 0 <= m < Z.of_nat (length h)) ->
  copy_value h v = (v', h') ->
  extends h h' /\
  (forall l c, hget h l = Some c -> hget h' l = Some c) /\
  (forall l, Reach h' v' l -> Reach h' v l -> False).
Proof.
  intros Hd Hc Hv E. unfold copy_value in E. pose proof (dcopy_post (S (hsize h)) h v Hd) as H. rewrite E in H.
  destruct H as [[new [-> [Hd' [Hf Hcf]]]]|[[Hn [-> ->]]|[-> ->]]].
  - split; [exists new; reflexivity|]. split; [intros l c; apply hget_app_old|].
    intros l H1 H2. pose proof (fresh_region h new v' Hd' Hcf Hf l H1). pose proof (old_region h new v Hd' Hc Hv l H2). lia.
  - split; [apply extends_refl|]. split; [auto|]. intros l H1 _. inversion H1; congruence.
  - split; [apply extends_refl|]. split; [auto|]. intros l H1 _. inversion H1; discriminate.
Qed.

(* ---- independence: a store outside what a value reaches does not change its snapshot ------------ *)
Lemma hget_hset_other h l c l' : l' <> l -> hget (hset h l c) l' = hget h l'.
Proof.
  intros Hne. induction h as [|[k c0] r IH]; simpl; [reflexivity|].
  destruct (Z.eqb k l) eqn:E; simpl.
  - apply Z.eqb_eq in E. subst. destruct (Z.eqb l l') eqn:E2; [apply Z.eqb_eq in E2; congruence|reflexivity].
  - rewrite IH. reflexivity.
Qed.

Lemma firstn_In {A} n (l : list A) x : In x (firstn n l) -> In x l.
Proof. revert l. induction n; intros [|y r]; simpl; try tauto. intros [->|H]; [left; reflexivity|right; apply IHn; exact H]. Qed.

Theorem store_elsewhere_keeps_snapshot : forall fuel h v l c,
  ~ Reach h v l -> tree_of fuel (hset h l c) v = tree_of fuel h v.
Proof.
  induction fuel as [|f IH]; intros h v l c Hn; [reflexivity|].
  cbn [tree_of].
  assert (Hsub : forall l0 c0 vs, ptr_of v = Some l0 -> hget h l0 = Some c0 -> (forall w, In w vs -> In w (cell_vals c0)) ->
            map (tree_of f (hset h l c)) vs = map (tree_of f h) vs).
  { intros l0 c0 vs Hp Hg Hin. apply map_ext_in. intros w Hw. apply IH. intros HR. apply Hn.
    exact (R_step h v l0 c0 w l Hp Hg (Hin w Hw) HR). }
  destruct v as [s|z|b| | |l0|l0 n|l0]; try reflexivity.
  - assert (Hne : l0 <> l) by (intros ->; apply Hn; apply R_here; reflexivity).
    rewrite (hget_hset_other h l c l0 Hne). destruct (hget h l0) as [[k fs|es|kvs]|] eqn:Eg; try reflexivity.
    + f_equal. apply (Hsub l0 (HMsg k fs) fs eq_refl Eg). auto.
    + f_equal. apply (Hsub l0 (HArr es) es eq_refl Eg). auto.
  - assert (Hne : l0 <> l) by (intros ->; apply Hn; apply R_here; reflexivity).
    rewrite (hget_hset_other h l c l0 Hne). destruct (hget h l0) as [[k fs|es|kvs]|] eqn:Eg; try reflexivity.
    f_equal. apply (Hsub l0 (HArr es) (firstn (Z.to_nat n) es) eq_refl Eg). intros w Hw. exact (firstn_In _ _ _ Hw).
  - assert (Hne : l0 <> l) by (intros ->; apply Hn; apply R_here; reflexivity).
    rewrite (hget_hset_other h l c l0 Hne). reflexivity.
Qed.

(* ---- histories: later allocations do not change what earlier values look like ------------------- *)
Theorem later_allocations_keep_snapshot : forall fuel h new v,
  (forall l, Reach h v l -> hget h l <> None) -> tree_of fuel (h ++ new) v = tree_of fuel h v.
Proof.
  induction fuel as [|f IH]; intros h new v Hres; [reflexivity|].
  cbn [tree_of].
  assert (Hsub : forall l0 c0 vs, ptr_of v = Some l0 -> hget h l0 = Some c0 -> (forall w, In w vs -> In w (cell_vals c0)) ->
            map (tree_of f (h ++ new)) vs = map (tree_of f h) vs).
  { intros l0 c0 vs Hp Hg Hin. apply map_ext_in. intros w Hw. apply IH. intros m HR. apply Hres.
    exact (R_step h v l0 c0 w m Hp Hg (Hin w Hw) HR). }
  assert (Hhere : forall l0, ptr_of v = Some l0 -> exists c0, hget h l0 = Some c0 /\ hget (h ++ new) l0 = Some c0).
  { intros l0 Hp. destruct (hget h l0) eqn:E; [|exfalso; exact (Hres l0 (R_here h v l0 Hp) E)].
    exists h0. split; [reflexivity|apply hget_app_old; exact E]. }
  destruct v as [s|z|b| | |l0|l0 n|l0]; try reflexivity; destruct (Hhere l0 eq_refl) as [c0 [E1 E2]]; rewrite E1, E2.
  - destruct c0 as [k fs|es|kvs]; try reflexivity; f_equal.
    + apply (Hsub l0 (HMsg k fs) fs eq_refl E1). auto.
    + apply (Hsub l0 (HArr es) es eq_refl E1). auto.
  - destruct c0 as [k fs|es|kvs]; try reflexivity; f_equal.
    apply (Hsub l0 (HArr es) (firstn (Z.to_nat n) es) eq_refl E1). intros w Hw. exact (firstn_In _ _ _ Hw).
  - reflexivity.
Qed.

(* ---- allocate-and-store-into-your-own programs leave every earlier location as it was ----------- *)
Lemma hset_length h l c : length (hset h l c) = length h.
Proof. induction h as [|[k c0] r IH]; cbn [hset]; [reflexivity|]. destruct (Z.eqb k l); cbn [length]; [reflexivity | rewrite IH; reflexivity]. Qed.

Lemma hstep_length_le h o : (length h <= length (hstep h o))%nat.
Proof. destruct o as [c|l c]; cbn [hstep alloc snd]; [rewrite app_length; cbn [length]; lia | rewrite hset_length; lia]. Qed.

Theorem fresh_only_keeps_old_heap : forall ops h0 h,
  dense h0 -> fresh_only (Z.of_nat (length h0)) ops = true ->
  (forall l c, hget h0 l = Some c -> hget h l = Some c) ->
  forall l c, hget h0 l = Some c -> hget (fold_left hstep ops h) l = Some c.
Proof.
  induction ops as [|o ops IH]; intros h0 h Hd Hf Hold l c Hl; cbn [fold_left]; [apply Hold; exact Hl|].
  cbn [fresh_only forallb] in Hf. apply Bool.andb_true_iff in Hf. destruct Hf as [Ho Hf].
  apply (IH h0 (hstep h o) Hd Hf); [|exact Hl].
  intros l' c' Hl'. destruct o as [c0|l0 c0]; cbn [hstep alloc snd].
  - apply hget_app_old. apply Hold; exact Hl'.
  - rewrite hget_hset_other; [apply Hold; exact Hl'|].
    apply Z.leb_le in Ho. pose proof (dense_bound h0 l' c' Hd (hget_In _ _ _ Hl')) as Hb. lia.
Qed.

Corollary fresh_only_keeps_snapshot : forall fuel ops h v,
  dense h -> fresh_only (Z.of_nat (length h)) ops = true ->
  (forall l, Reach h v l -> hget h l <> None) ->
  tree_of fuel (fold_left hstep ops h) v = tree_of fuel h v.
Proof.
  intros fuel ops h v Hd Hf Hr.
  assert (Hold : forall l c, hget h l = Some c -> hget (fold_left hstep ops h) l = Some c).
  { apply (fresh_only_keeps_old_heap ops h h Hd Hf). intros l c H; exact H. }
  revert v Hr. induction fuel as [|f IH]; intros v Hr; cbn [tree_of]; [reflexivity|].
  destruct v as [s|z|b| | |l|l n|l]; try reflexivity.
  - destruct (hget h l) as [c|] eqn:E; [|exfalso; apply (Hr l); [apply R_here; reflexivity | exact E]].
    rewrite (Hold l c E). destruct c as [k fs|es|kvs]; try reflexivity.
    + f_equal. apply map_ext_in. intros w Hw. apply IH. intros l' Hl'. apply Hr. exact (R_step h (HPtr l) l _ w l' eq_refl E Hw Hl').
    + f_equal. apply map_ext_in. intros w Hw. apply IH. intros l' Hl'. apply Hr. exact (R_step h (HPtr l) l _ w l' eq_refl E Hw Hl').
  - destruct (hget h l) as [c|] eqn:E; [|exfalso; apply (Hr l); [apply R_here; reflexivity | exact E]].
    rewrite (Hold l c E). destruct c as [k fs|es|kvs]; try reflexivity.
    f_equal. apply map_ext_in. intros w Hw. apply IH. intros l' Hl'. apply Hr. exact (R_step h (HSl l n) l _ w l' eq_refl E (firstn_In _ _ _ Hw) Hl').
  - destruct (hget h l) as [c|] eqn:E; [|exfalso; apply (Hr l); [apply R_here; reflexivity | exact E]].
    rewrite (Hold l c E). reflexivity.
Qed.
