(* Set-algebra laws of Union / Add / Intersect (C09, C10) on the order-free abstractions:
   node identifiers, root elements and typed edge triples. Operands may be ill-formed
   (dangling edges and roots, several edges per key, duplicate identifiers) unless a
   hypothesis says otherwise. *)
From Coq Require Import Lia.
From Verif Require Import Model.Base Model.Node Model.Graph Proofs.ListFacts Proofs.GraphFacts Proofs.OpsWf.
Open Scope list_scope.

Definition Nset (l : nodelist) (i : string) : Prop := In i (ids l).
Definition Rset (l : nodelist) (r : string) : Prop := In r (nl_root_elements l).
Definition Eset (l : nodelist) (f : string) (t : Z) (x : string) : Prop := InE (nl_edges l) f t x.
(* edges restricted to present nodes; roots restricted to present nodes *)
Definition Eres (l : nodelist) f t x : Prop := Eset l f t x /\ Nset l f /\ Nset l x.
Definition Rres (l : nodelist) r : Prop := Rset l r /\ Nset l r.

(* same nodes, same roots, same edges among present nodes *)
Definition equiv (l1 l2 : nodelist) : Prop :=
  (forall i, Nset l1 i <-> Nset l2 i) /\
  (forall r, Rset l1 r <-> Rset l2 r) /\
  (forall f t x, Eres l1 f t x <-> Eres l2 f t x).

(* the same with roots restricted to present nodes (used for Intersect, which cannot
   keep a root that names no node) *)
Definition equiv_res (l1 l2 : nodelist) : Prop :=
  (forall i, Nset l1 i <-> Nset l2 i) /\
  (forall r, Rres l1 r <-> Rres l2 r) /\
  (forall f t x, Eres l1 f t x <-> Eres l2 f t x).

Definition edges_closed (l : nodelist) : Prop := closed (Nset l) (nl_edges l).

Lemma edges_closed_E l f t x : edges_closed l -> Eset l f t x -> Nset l f /\ Nset l x.
Proof.
  intros Hc [e [He [Hf [_ Hx]]]]. subst f. split.
  - apply (closed_from _ _ _ Hc He).
  - apply (closed_to _ _ _ _ Hc He Hx).
Qed.

(* ---- Union ------------------------------------------------------------------------ *)
Lemma union_ids l l2 : ids (union l l2) = ids l ++ filter (fun i => negb (mem i (ids l))) (ids l2).
Proof.
  unfold union, ids at 1; simpl. rewrite merge_nodes_ids by (intros; reflexivity).
  rewrite map_node_copy_ids. reflexivity.
Qed.

Theorem union_N l l2 i : Nset (union l l2) i <-> Nset l i \/ Nset l2 i.
Proof.
  unfold Nset. rewrite union_ids, in_app_iff, filter_In, negb_true_iff, mem_false.
  destruct (in_dec string_dec i (ids l)); tauto.
Qed.

Theorem union_R l l2 r : Rset (union l l2) r <-> Rset l r \/ Rset l2 r.
Proof. unfold Rset, union; simpl. apply merge_roots_In. Qed.

Theorem union_E l l2 f t x :
  Eset (union l l2) f t x <->
  (Eset l f t x \/ Eset l2 f t x) /\ (Nset l f \/ Nset l2 f) /\ (Nset l x \/ Nset l2 x).
Proof.
  unfold Eset. unfold union at 1; simpl. rewrite clean_edges_InE, InE_app, !mem_In.
  change (In f (map n_id (merge_nodes update (map node_copy (nl_nodes l)) (ids l) (nl_nodes l2)))) with (Nset (union l l2) f).
  change (In x (map n_id (merge_nodes update (map node_copy (nl_nodes l)) (ids l) (nl_nodes l2)))) with (Nset (union l l2) x).
  rewrite !union_N. tauto.
Qed.

Lemma union_Eres l l2 f t x :
  Eres (union l l2) f t x <->
  (Eset l f t x \/ Eset l2 f t x) /\ (Nset l f \/ Nset l2 f) /\ (Nset l x \/ Nset l2 x).
Proof. unfold Eres. rewrite union_E, !union_N. tauto. Qed.

Theorem union_idem l : equiv (union l l) l.
Proof.
  split; [|split].
  - intros i. rewrite union_N. tauto.
  - intros r. rewrite union_R. tauto.
  - intros f t x. rewrite union_Eres. unfold Eres. tauto.
Qed.

Theorem union_comm l l2 : equiv (union l l2) (union l2 l).
Proof.
  split; [|split].
  - intros i. rewrite !union_N. tauto.
  - intros r. rewrite !union_R. tauto.
  - intros f t x. rewrite !union_Eres. tauto.
Qed.

Lemma empty_N i : Nset empty_nl i <-> False.
Proof. unfold Nset, ids; simpl. tauto. Qed.
Lemma empty_R r : Rset empty_nl r <-> False.
Proof. unfold Rset; simpl. tauto. Qed.
Lemma empty_E f t x : Eset empty_nl f t x <-> False.
Proof. unfold Eset, InE; simpl. split; [intros [e [[] _]]|tauto]. Qed.

Theorem union_empty_r l : equiv (union l empty_nl) l.
Proof.
  split; [|split].
  - intros i. rewrite union_N, empty_N. tauto.
  - intros r. rewrite union_R, empty_R. tauto.
  - intros f t x. rewrite union_Eres, empty_E, !empty_N. unfold Eres. tauto.
Qed.

Theorem union_empty_l l : equiv (union empty_nl l) l.
Proof.
  split; [|split].
  - intros i. rewrite union_N, empty_N. tauto.
  - intros r. rewrite union_R, empty_R. tauto.
  - intros f t x. rewrite union_Eres, empty_E, !empty_N. unfold Eres. tauto.
Qed.

(* associativity holds when no operand has a dangling edge *)
Theorem union_assoc_partial a b c :
  edges_closed a -> edges_closed b -> edges_closed c ->
  equiv (union (union a b) c) (union a (union b c)).
Proof.
  intros Ha Hb Hc. split; [|split].
  - intros i. rewrite !union_N. tauto.
  - intros r. rewrite !union_R. tauto.
  - intros f t x. rewrite !union_Eres, !union_E, !union_N.
    pose proof (edges_closed_E a f t x Ha). pose proof (edges_closed_E b f t x Hb).
    pose proof (edges_closed_E c f t x Hc). tauto.
Qed.

(* ---- Add (in place) ------------------------------------------------------------------ *)
Lemma add_ids l l2 : ids (add l l2) = ids l ++ filter (fun i => negb (mem i (ids l))) (ids l2).
Proof. unfold add, ids at 1; simpl. apply merge_nodes_ids. intros; reflexivity. Qed.

Theorem add_N l l2 i : Nset (add l l2) i <-> Nset l i \/ Nset l2 i.
Proof.
  unfold Nset. rewrite add_ids, in_app_iff, filter_In, negb_true_iff, mem_false.
  destruct (in_dec string_dec i (ids l)); tauto.
Qed.

Theorem add_R l l2 r : Rset (add l l2) r <-> Rset l r \/ Rset l2 r.
Proof. unfold Rset, add; simpl. apply merge_roots_In. Qed.

Theorem add_E l l2 f t x :
  Eset (add l l2) f t x <->
  (Eset l f t x \/ Eset l2 f t x) /\ (Nset l f \/ Nset l2 f) /\ (Nset l x \/ Nset l2 x).
Proof.
  unfold Eset. unfold add at 1; simpl. rewrite clean_edges_InE, InE_app, !mem_In.
  change (In f (map n_id (merge_nodes augment (nl_nodes l) (ids l) (nl_nodes l2)))) with (Nset (add l l2) f).
  change (In x (map n_id (merge_nodes augment (nl_nodes l) (ids l) (nl_nodes l2)))) with (Nset (add l l2) x).
  rewrite !add_N. tauto.
Qed.

(* the in-place variant computes the same sets as Union *)
Theorem add_equiv_union l l2 : equiv (add l l2) (union l l2).
Proof.
  split; [|split].
  - intros i. rewrite add_N, union_N. tauto.
  - intros r. rewrite add_R, union_R. tauto.
  - intros f t x. unfold Eres. rewrite add_E, union_E, !add_N, !union_N. tauto.
Qed.

(* ---- Intersect ---------------------------------------------------------------------------- *)
Theorem intersect_N l l2 i : Nset (intersect l l2) i <-> Nset l i /\ Nset l2 i.
Proof. unfold Nset. rewrite intersect_ids. apply common_ids_In. Qed.

Theorem intersect_R l l2 r :
  Rset (intersect l l2) r <-> (Rset l r \/ Rset l2 r) /\ Nset l r /\ Nset l2 r.
Proof.
  unfold Rset, intersect; simpl. fold (common_ids l l2).
  rewrite filter_In, common_ids_In, orb_true_iff, !mem_In. unfold Nset. tauto.
Qed.

Theorem intersect_E l l2 f t x :
  Eset (intersect l l2) f t x <->
  (Eset l f t x \/ Eset l2 f t x) /\ (Nset l f /\ Nset l2 f) /\ (Nset l x /\ Nset l2 x).
Proof.
  unfold Eset. unfold intersect at 1; simpl. fold (common_ids l l2).
  rewrite clean_edges_InE, InE_app, !mem_In, !common_ids_In. unfold Nset. tauto.
Qed.

Lemma intersect_Eres l l2 f t x :
  Eres (intersect l l2) f t x <->
  (Eset l f t x \/ Eset l2 f t x) /\ (Nset l f /\ Nset l2 f) /\ (Nset l x /\ Nset l2 x).
Proof. unfold Eres. rewrite intersect_E, !intersect_N. tauto. Qed.

(* the containment clauses of the statement *)
Theorem intersect_R_bounds l l2 r :
  (Rset (intersect l l2) r -> (Rset l r \/ Rset l2 r) /\ Nset (intersect l l2) r) /\
  (Rset l r -> Rset l2 r -> Nset (intersect l l2) r -> Rset (intersect l l2) r).
Proof. rewrite intersect_R, intersect_N. tauto. Qed.

Theorem intersect_E_bounds l l2 f t x :
  (Eset (intersect l l2) f t x ->
     (Eset l f t x \/ Eset l2 f t x) /\ Nset (intersect l l2) f /\ Nset (intersect l l2) x) /\
  (Eset l f t x -> Eset l2 f t x -> Nset (intersect l l2) f -> Nset (intersect l l2) x ->
     Eset (intersect l l2) f t x).
Proof. rewrite intersect_E, !intersect_N. tauto. Qed.

Theorem intersect_idem l : equiv_res (intersect l l) l.
Proof.
  split; [|split].
  - intros i. rewrite intersect_N. tauto.
  - intros r. unfold Rres. rewrite intersect_R, intersect_N. tauto.
  - intros f t x. rewrite intersect_Eres. unfold Eres. tauto.
Qed.

Theorem intersect_comm l l2 : equiv (intersect l l2) (intersect l2 l).
Proof.
  split; [|split].
  - intros i. rewrite !intersect_N. tauto.
  - intros r. rewrite !intersect_R. tauto.
  - intros f t x. rewrite !intersect_Eres. tauto.
Qed.

(* absorption: intersecting with a union that contains the operand gives its nodes back *)
Theorem intersect_absorb l l2 i : Nset (intersect l (union l l2)) i <-> Nset l i.
Proof. rewrite intersect_N, union_N. tauto. Qed.

Theorem intersect_absorb' l l2 i : Nset (intersect l (union l2 l)) i <-> Nset l i.
Proof. rewrite intersect_N, union_N. tauto. Qed.

Theorem intersect_empty_r l : equiv (intersect l empty_nl) empty_nl.
Proof.
  split; [|split].
  - intros i. rewrite intersect_N, empty_N. tauto.
  - intros r. rewrite intersect_R, !empty_R, empty_N. tauto.
  - intros f t x. rewrite intersect_Eres. unfold Eres. rewrite !empty_N. tauto.
Qed.

Theorem intersect_empty_l l : equiv (intersect empty_nl l) empty_nl.
Proof.
  split; [|split].
  - intros i. rewrite intersect_N, empty_N. tauto.
  - intros r. rewrite intersect_R, !empty_R, empty_N. tauto.
  - intros f t x. rewrite intersect_Eres. unfold Eres. rewrite !empty_N. tauto.
Qed.
