(* C08 — graph-editing operations preserve well-formedness.
   Only statements, `exact` of the proved lemma, Print Assumptions and non-vacuity
   examples live here; the proofs are in Proofs/OpsWf.v. *)
From Coq Require Import Lia.
From Verif Require Import Model.Base Model.Node Model.Graph Proofs.ListFacts Proofs.GraphFacts Proofs.OpsWf.
Open Scope list_scope.

(* cleanEdges: exactly the triples whose two endpoints are present; normal form *)
Theorem C08_clean_spec : forall present es f t x,
  InE (clean_edges present es) f t x <-> InE es f t x /\ present f = true /\ present x = true.
Proof. exact clean_edges_InE. Qed.
Print Assumptions C08_clean_spec.

Theorem C08_clean_norm : forall present es, norm (clean_edges present es).
Proof. exact clean_edges_norm. Qed.
Print Assumptions C08_clean_norm.

(* every operation, one step: well-formed in, well-formed out *)
Theorem C08_step_wf : forall l o, wf l -> op_args_wf o -> wf (step l o).
Proof. exact step_wf. Qed.
Print Assumptions C08_step_wf.

(* any finite sequence of operations with arbitrary (well-formed) arguments *)
Theorem C08_ops_preserve_wf : forall ops l, wf l -> Forall op_args_wf ops -> wf (fold_left step ops l).
Proof. exact ops_preserve_wf. Qed.
Print Assumptions C08_ops_preserve_wf.

(* results of merging, removal and extraction are normalised (for ANY input list) *)
Theorem C08_step_norm : forall l o,
  normalising o = true ->
  match o with
  | OpSiblings i => forall l', node_siblings l i = Ok l' -> norm (nl_edges l')
  | OpGraph i => forall l', node_graph l i = Ok l' -> norm (nl_edges l')
  | _ => norm (nl_edges (step l o))
  end.
Proof. exact step_norm. Qed.
Print Assumptions C08_step_norm.

(* node removal removes exactly the named nodes, every edge and root entry mentioning them *)
Theorem C08_remove_exact : forall l rm,
  (forall i, In i (ids (remove_nodes l rm)) <-> In i (ids l) /\ ~ In i rm) /\
  (forall r, In r (nl_root_elements (remove_nodes l rm)) <-> In r (nl_root_elements l) /\ ~ In r rm) /\
  (forall f t x, InE (nl_edges (remove_nodes l rm)) f t x <->
                 InE (nl_edges l) f t x /\ (In f (ids l) /\ ~ In f rm) /\ (In x (ids l) /\ ~ In x rm)).
Proof. exact remove_exact. Qed.
Print Assumptions C08_remove_exact.

(* intersection is well-formed whatever the operands *)
Theorem C08_intersect_wf_any : forall l l2, wf (intersect l l2).
Proof. exact intersect_wf. Qed.
Print Assumptions C08_intersect_wf_any.

(* histories over several live graphs: an operation may take another live graph as its
   argument and writes one slot; every graph of the pool stays well-formed ... *)
Theorem C08_pool_ops_preserve_wf : forall pops p,
  Forall wf p -> Forall pop_wf pops -> Forall wf (fold_left pool_step pops p).
Proof. exact pool_ops_preserve_wf. Qed.
Print Assumptions C08_pool_ops_preserve_wf.

(* ... and a step touches no graph other than the one it writes (the frame the
   correspondence check holds the real code to: lists must not share storage) *)
Theorem C08_pool_step_frame : forall p po j,
  j <> po_dst po -> nth j (pool_step p po) empty_nl = nth j p empty_nl.
Proof. exact pool_step_frame. Qed.
Print Assumptions C08_pool_step_frame.

(* ---- non-vacuity: a non-trivial well-formed list and operation sequence ---------- *)
Definition nd (i : string) : node :=
  {| n_id := i; n_type := 0; n_name := ""; n_version := ""; n_file_name := ""; n_url_home := "";
     n_url_download := ""; n_licenses := []; n_license_concluded := ""; n_license_comments := "";
     n_copyright := ""; n_source_info := ""; n_comment := ""; n_summary := ""; n_description := "";
     n_attribution := []; n_suppliers := []; n_originators := []; n_release_date := None;
     n_build_date := None; n_valid_until_date := None; n_external_references := [];
     n_file_types := []; n_identifiers := []; n_hashes := []; n_primary_purpose := [] |}.

Definition ex_l : nodelist :=
  {| nl_nodes := [nd "a"; nd "b"; nd "c"];
     nl_edges := [ {| e_type := 5; e_from := "a"; e_to := ["b"; "c"; "b"] |};
                   {| e_type := 5; e_from := "a"; e_to := ["c"] |};
                   {| e_type := 10; e_from := "c"; e_to := ["a"] |} ];
     nl_root_elements := ["a"] |}.
Definition ex_l2 : nodelist :=
  {| nl_nodes := [nd "c"; nd "d"];
     nl_edges := [ {| e_type := 10; e_from := "d"; e_to := ["c"] |} ];
     nl_root_elements := ["d"] |}.
Definition ex_ops : list op :=
  [OpUnion ex_l2; OpRemove ["b"]; OpRelateNode (nd "e") "a" 5; OpDescendants "a" 2%nat; OpAdd ex_l2].

Lemma wf_dec_sound l :
  (forallb (fun i => Nat.eqb (List.count_occ string_dec (ids l) i) 1) (ids l)
   && forallb (fun e => mem (e_from e) (ids l) && forallb (fun x => mem x (ids l)) (e_to e)) (nl_edges l)
   && forallb (fun r => mem r (ids l)) (nl_root_elements l))%bool = true -> wf l.
Proof.
  rewrite !andb_true_iff, !forallb_forall. intros [[H1 H2] H3]. split; [|split].
  - apply (NoDup_count_occ' string_dec). intros x Hx. apply H1 in Hx. apply Nat.eqb_eq in Hx. exact Hx.
  - intros e He. apply H2 in He. apply andb_true_iff in He as [Ha Hb]. split; [apply mem_In; exact Ha|].
    intros x Hx. rewrite forallb_forall in Hb. apply mem_In. apply Hb. exact Hx.
  - intros r Hr. apply mem_In. apply H3. exact Hr.
Qed.

Example C08_nonvacuous :
  wf ex_l /\ Forall op_args_wf ex_ops /\ length (nl_nodes (fold_left step ex_ops ex_l)) = 4%nat.
Proof.
  split; [apply wf_dec_sound; vm_compute; reflexivity|]. split.
  - unfold ex_ops. repeat (apply Forall_cons || apply Forall_nil); simpl; try exact I; try lia;
      apply wf_dec_sound; vm_compute; reflexivity.
  - vm_compute. reflexivity.
Qed.

(* a pool history: relate ex_l2 under "a" of ex_l, remove "d" from ex_l2, add ex_l to ex_l2 *)
Definition ex_pops : list pop :=
  [ mk_pop 0 (Some 1%nat) (OpRelateList empty_nl "a" 5) 0;
    mk_pop 1 None (OpRemove ["d"]) 1;
    mk_pop 1 (Some 0%nat) (OpAdd empty_nl) 1;
    mk_pop 0 (Some 1%nat) (OpUnion empty_nl) 2;
    mk_pop 0 (Some 0%nat) (OpRelateList empty_nl "a" 5) 0 ].   (* a list related at one of its own nodes *)

Definition ex_pool : list nodelist := [ex_l; ex_l2; empty_nl].
Definition ex_sizes : list nat := [4; 4; 4]%nat.

Example C08_pool_nonvacuous :
  Forall wf ex_pool /\ Forall pop_wf ex_pops /\
  map (fun l => length (nl_nodes l)) (fold_left pool_step ex_pops ex_pool) = ex_sizes.
Proof.
  split; [unfold ex_pool; repeat (apply Forall_cons || apply Forall_nil); apply wf_dec_sound; vm_compute; reflexivity|]. split.
  - unfold ex_pops. repeat (apply Forall_cons || apply Forall_nil); unfold pop_wf; simpl; try exact I; intros l2 H; exact H.
  - vm_compute. reflexivity.
Qed.
