(* Every component becomes a node: the node identifiers the CycloneDX reader produces, with the
   traversal counter made explicit, and the node count when they are pairwise distinct (C05). *)
From Coq Require Import Lia Permutation.
From Verif Require Import Model.Base Model.Node Model.Graph Model.Cdx
  Proofs.ListFacts Proofs.GraphFacts Proofs.OpsWf Proofs.SetLaws Proofs.RelateFacts Proofs.CdxFacts Proofs.DecFacts.
Open Scope list_scope.

Definition cid (c : comp) (k : Z) : string := if String.eqb (c_ref c) "" then auto_id k else c_ref c.

(* identifiers in traversal order, and the counter after the component *)
Fixpoint cids (c : comp) (cc : Z) : list string * Z :=
  fold_left (fun st sub => let '(acc, k) := st in let '(l, k') := cids sub k in (acc ++ l, k'))
            (c_sub c) ([cid c (cc + 1)], cc + 1).

Lemma comp_node_cid c k : n_id (comp_to_node c k) = cid c k.
Proof. reflexivity. Qed.

Lemma comp_to_nl_cids : forall c cc,
  snd (comp_to_nl c cc) = snd (cids c cc) /\
  (forall i, Nset (fst (comp_to_nl c cc)) i <-> In i (fst (cids c cc))) /\
  length (fst (cids c cc)) = csize c /\
  In (cid c (cc + 1)) (ids (fst (comp_to_nl c cc))).
Proof.
  induction c as [c IH] using comp_ind'. intros cc.
  destruct c as [r t n v d cp l h x p cpe s sub]. cbn [comp_to_nl cids c_sub csize]. cbn [c_sub] in IH.
  set (cfull := mk_comp r t n v d cp l h x p cpe s sub).
  set (nd := comp_to_node cfull (cc + 1)).
  assert (Hnd : n_id nd = cid cfull (cc + 1)) by reflexivity.
  set (nl0 := {| nl_nodes := [nd]; nl_edges := []; nl_root_elements := [n_id nd] |}).
  assert (Hfold : forall todo nl k acc, Forall (fun c0 => forall cc0,
              snd (comp_to_nl c0 cc0) = snd (cids c0 cc0) /\
              (forall i, Nset (fst (comp_to_nl c0 cc0)) i <-> In i (fst (cids c0 cc0))) /\
              length (fst (cids c0 cc0)) = csize c0 /\ In (cid c0 (cc0 + 1)) (ids (fst (comp_to_nl c0 cc0)))) todo ->
            (forall i, Nset nl i <-> In i acc) -> In (n_id nd) (ids nl) ->
            let r1 := fold_left (fun st sub0 => let '(nl1, k1) := st in let '(snl, k') := comp_to_nl sub0 k1 in
                                                (or_keep nl1 (relate_list_at nl1 snl (n_id nd) Edge_Type_contains), k')) todo (nl, k) in
            let r2 := fold_left (fun st sub0 => let '(acc0, k1) := st in let '(l0, k') := cids sub0 k1 in (acc0 ++ l0, k')) todo (acc, k) in
            snd r1 = snd r2 /\ (forall i, Nset (fst r1) i <-> In i (fst r2)) /\
            length (fst r2) = (length acc + list_sum (map csize todo))%nat /\ In (n_id nd) (ids (fst r1))).
  { induction todo as [|s1 rest IHt]; intros nl k acc Hall Hn Hroot; cbn [fold_left fst snd map list_sum].
    - split; [reflexivity|]. split; [exact Hn|]. split; [unfold list_sum; cbn; lia|exact Hroot].
    - inversion Hall as [|? ? H1 Hrest]; subst. destruct (H1 k) as [Ek [En [El _]]].
      destruct (comp_to_nl s1 k) as [snl k'] eqn:E1. destruct (cids s1 k) as [l1 k1'] eqn:E2. cbn [fst snd] in *. subst k1'.
      assert (Hhas : has nl (n_id nd) = true) by (apply mem_In; exact Hroot).
      destruct (relate_list_ok nl snl (n_id nd) Edge_Type_contains Hhas) as [l' [El' [_ Hkeep]]].
      rewrite El'. cbn [or_keep].
      destruct (IHt l' k' (acc ++ l1) Hrest) as [A [B [C D]]].
      + intros i. rewrite (relate_list_N _ _ _ _ _ i El'), Hn, En, in_app_iff. tauto.
      + apply Hkeep. exact Hroot.
      + split; [exact A|]. split; [exact B|]. split; [|exact D].
        rewrite C, app_length, El. change (list_sum (csize s1 :: map csize rest)) with (csize s1 + list_sum (map csize rest))%nat. lia. }
  destruct (Hfold sub nl0 (cc + 1) [cid cfull (cc + 1)] IH) as [A [B [C D]]].
  - intros i. unfold Nset, ids, nl0; cbn [nl_nodes map]. rewrite Hnd. cbn [In]. tauto.
  - unfold ids, nl0; cbn [nl_nodes map]. left. reflexivity.
  - split; [exact A|]. split; [exact B|]. split; [rewrite C; cbn [length]; lia|]. rewrite <- Hnd. exact D.
Qed.

(* the identifiers of a whole BOM *)
Definition bcids (b : cbom) : list string :=
  let '(l0, k0) := match (if b_has_metadata b then b_meta_comp b else None) with
                   | Some mc => cids mc 0
                   | None => ([], 0)
                   end in
  fst (fold_left (fun st c => let '(acc, k) := st in let '(l, k') := cids c k in (acc ++ l, k')) (b_components b) (l0, k0)).

Theorem cdx_unser_cids b :
  (forall i, Nset (cdx_unser_nl b) i <-> In i (bcids b)) /\ length (bcids b) = bsize b.
Proof.
  unfold cdx_unser_nl, bcids, bsize.
  set (m := if b_has_metadata b then b_meta_comp b else None).
  assert (H0 : let st0 := match m with Some mc => let '(nl, k) := comp_to_nl mc 0 in (add empty_nl nl, k) | None => (empty_nl, 0) end in
               let a0 := match m with Some mc => cids mc 0 | None => ([], 0) end in
               snd st0 = snd a0 /\ (forall i, Nset (fst st0) i <-> In i (fst a0)) /\
               length (fst a0) = match m with Some mc => csize mc | None => 0%nat end /\
               (nl_root_elements (fst st0) = [] \/ exists r, nl_root_elements (fst st0) = r :: nil /\ In r (ids (fst st0)) \/ True)).
  { destruct m as [mc|]; cbn zeta.
    - destruct (comp_to_nl_cids mc 0) as [A [B [C _]]]. destruct (comp_to_nl mc 0) as [nl k]. destruct (cids mc 0) as [l0 k0]. cbn [fst snd] in *.
      split; [exact A|]. split; [intros i; rewrite add_N, B; unfold Nset at 1, ids; cbn; tauto|]. split; [exact C|]. right. exists "". right. exact I.
    - split; [reflexivity|]. split; [intros i; unfold Nset, ids; cbn; tauto|]. split; [reflexivity|left; reflexivity]. }
  cbn zeta in H0. destruct H0 as [A0 [B0 [C0 _]]].
  set (st0 := match m with Some mc => let '(nl, k) := comp_to_nl mc 0 in (add empty_nl nl, k) | None => (empty_nl, 0) end) in *.
  set (a0 := match m with Some mc => cids mc 0 | None => ([], 0) end) in *.
  destruct a0 as [l0 k0]. cbn [fst snd] in *.
  assert (Hfold : forall cs st acc k, snd st = k -> (forall i, Nset (fst st) i <-> In i acc) ->
            (forall r rest, nl_root_elements (fst st) = r :: rest -> In r (ids (fst st))) ->
            let r1 := fold_left (fun st c => let '(doc, k) := st in let '(nl, k') := comp_to_nl c k in
                                            (match nl_root_elements doc with
                                             | [] => add doc nl
                                             | r :: _ => or_keep doc (relate_list_at doc nl r Edge_Type_contains)
                                             end, k')) cs st in
            let r2 := fold_left (fun st c => let '(acc0, k1) := st in let '(l, k') := cids c k1 in (acc0 ++ l, k')) cs (acc, k) in
            (forall i, Nset (fst r1) i <-> In i (fst r2)) /\ length (fst r2) = (length acc + list_sum (map csize cs))%nat).
  { induction cs as [|c rest IHc]; intros st acc k Ek Hn Hroot; cbn [fold_left fst snd map list_sum].
    - split; [exact Hn|unfold list_sum; cbn; lia].
    - destruct st as [doc kd]. cbn [fst snd] in *. subst kd.
      destruct (comp_to_nl_cids c k) as [Ec [Nc [Lc _]]].
      destruct (comp_to_nl c k) as [nl k'] eqn:E1. destruct (cids c k) as [l1 k1'] eqn:E2. cbn [fst snd] in *. subst k1'.
      destruct (nl_root_elements doc) as [|r rr] eqn:Er.
      + destruct (IHc (add doc nl, k') (acc ++ l1) k' eq_refl) as [A B].
        * intros i. cbn [fst]. rewrite add_N, Hn, Nc, in_app_iff. tauto.
        * cbn [fst]. intros r0 rest0 Hr0. unfold add in Hr0; cbn [nl_root_elements] in Hr0. rewrite Er in Hr0. unfold merge_roots in Hr0. cbn [app] in Hr0.
          assert (Hin : In r0 (nl_root_elements nl)).
          { assert (Hf : In r0 (filter (fun r1 => negb (mem r1 [])) (nl_root_elements nl))) by (rewrite Hr0; left; reflexivity).
            apply filter_In in Hf. exact (proj1 Hf). }
          pose proof (comp_to_nl_ok c k) as Hok. rewrite E1 in Hok. cbn [fst] in Hok. destruct Hok as [[_ [_ Hri]] _].
          apply add_N. right. apply Hri. exact Hin.
        * split; [exact A|]. rewrite B, app_length, Lc.
          change (list_sum (csize c :: map csize rest)) with (csize c + list_sum (map csize rest))%nat. lia.
      + assert (Hhas : has doc r = true) by (apply mem_In; exact (Hroot r rr eq_refl)).
        destruct (relate_list_ok doc nl r Edge_Type_contains Hhas) as [l' [El' [Hr' Hkeep]]].
        rewrite El'. cbn [or_keep].
        destruct (IHc (l', k') (acc ++ l1) k' eq_refl) as [A B].
        * intros i. cbn [fst]. rewrite (relate_list_N _ _ _ _ _ i El'), Hn, Nc, in_app_iff. tauto.
        * cbn [fst]. intros r0 rest0 Hr0. rewrite Hr', Er in Hr0. injection Hr0 as <- <-. apply Hkeep. exact (Hroot r rr eq_refl).
        * split; [exact A|]. rewrite B, app_length, Lc.
          change (list_sum (csize c :: map csize rest)) with (csize c + list_sum (map csize rest))%nat. lia. }
  destruct (Hfold (b_components b) st0 l0 k0 A0 B0) as [A B].
  - intros r rest Hr. unfold st0 in *. destruct m as [mc|].
    + pose proof (comp_to_nl_ok mc 0) as Hok. destruct (comp_to_nl mc 0) as [nl k]. cbn [fst] in *.
      destruct Hok as [[_ [_ Hri]] [Hroots _]]. unfold add in Hr; cbn [nl_root_elements empty_nl] in Hr. unfold merge_roots in Hr. cbn [app] in Hr.
      assert (Hin : In r (nl_root_elements nl)).
      { assert (Hf : In r (filter (fun r1 => negb (mem r1 [])) (nl_root_elements nl))) by (rewrite Hr; left; reflexivity).
        apply filter_In in Hf. exact (proj1 Hf). }
      apply add_N. right. apply Hri. exact Hin.
    + cbn in Hr. discriminate.
  - split; [exact A|]. rewrite B, C0. reflexivity.
Qed.

(* when the identifiers are pairwise distinct no component is lost: one node per component *)
Theorem cdx_unser_node_count b : NoDup (bcids b) -> length (nl_nodes (cdx_unser_nl b)) = bsize b.
Proof.
  intros Hn. destruct (cdx_unser_cids b) as [HN HL]. rewrite <- HL.
  rewrite <- (map_length n_id). change (map n_id (nl_nodes (cdx_unser_nl b))) with (ids (cdx_unser_nl b)).
  apply Permutation_length. apply NoDup_Permutation; [exact (proj1 (cdx_unser_wf b))|exact Hn|exact HN].
Qed.
