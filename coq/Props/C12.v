(* C12 — Copies and combined results are independent values.  Statements only; proofs in
   Proofs/HeapFacts.v.  Model (Model/Heap.v): Go values as graphs of mutable locations (message
   structs, slice backing arrays, maps); the Copy methods as a deep copy with the conventions each
   method has for nil and empty slices (fix_field; field positions from the generated table of Go
   struct fields).  The harness records the real object graph by pointer identity before and after
   every Copy and compares it with the model's, location names aside (HCopy cases).  Union and
   Intersect are not modelled on this level: that their results share no location with their
   operands is evaluated on the observed graphs with the same `separated` predicate the theorems
   are about (HSeparate cases), their values are C09 / C10's subject. *)
From Coq Require Import Lia.
From Verif Require Import Model.Base Model.Heap Proofs.HeapFacts Proofs.HeapValue.
Open Scope list_scope.

(* a copy only allocates: the heap its source lives in is extended, never written; and no location
   is reachable both from the copy and from its source — for every heap, every value, any nesting *)
Theorem C12_copy_shares_nothing : forall h v v' h',
  dense h -> closed_heap h -> (forall m, ptr_of v = Some m -> 0 <= m < Z.of_nat (length h)) ->
  copy_value h v = (v', h') ->
  extends h h' /\
  (forall l c, hget h l = Some c -> hget h' l = Some c) /\
  (forall l, Reach h' v' l -> Reach h' v l -> False).
Proof. exact copy_frame_and_separation. Qed.
Print Assumptions C12_copy_shares_nothing.

(* a copy compares equal to its source: the snapshot of the copy is the snapshot of the source with
   the method's nil/empty conventions applied (ntree_of), at every depth the fuel reaches, for every
   well-typed heap *)
Theorem C12_copy_equals_source : forall n h v v' h',
  dense h -> wt_heap h -> wt_val h v -> dcopy n h v = (v', h') -> tree_of n h' v' = ntree_of n h v.
Proof. exact copy_equals_source. Qed.
Print Assumptions C12_copy_equals_source.

(* mutating any part of one never changes the other: a store to a location a value does not reach
   leaves every snapshot of that value as it was (elements of lists and entries of maps included:
   they live in the array and map cells) *)
Theorem C12_mutation_elsewhere_invisible : forall fuel h v l c,
  ~ Reach h v l -> tree_of fuel (hset h l c) v = tree_of fuel h v.
Proof. exact store_elsewhere_keeps_snapshot. Qed.
Print Assumptions C12_mutation_elsewhere_invisible.

(* results returned by earlier calls are not altered by later calls that only allocate *)
Theorem C12_earlier_results_stable : forall fuel h new v,
  (forall l, Reach h v l -> hget h l <> None) -> tree_of fuel (h ++ new) v = tree_of fuel h v.
Proof. exact later_allocations_keep_snapshot. Qed.
Print Assumptions C12_earlier_results_stable.

(* non-vacuity: a node with a supplier that has a contact, a hash map and a purpose list; the copy is
   a different graph of the same shape, the suppliers list convention applies *)
Definition ex_heap : heap :=
  [ (0, HMsg K_Node [HS "a"; HZ 0; HS "n"; HS ""; HS ""; HS ""; HS ""; HNil; HS ""; HS ""; HS ""; HS ""; HS ""; HS ""; HS ""; HNil;
                     HSl 1 1; HNil; HNil; HNil; HNil; HNil; HNil; HNil; HMp 4; HSl 5 2]);
    (1, HArr [HPtr 2]); (2, HMsg K_Person [HS "p"; HB false; HS ""; HS ""; HS ""; HSl 3 1]); (3, HArr [HPtr 6]);
    (4, HMap [(3, "aa")]); (5, HArr [HZ 16; HZ 1]); (6, HMsg K_Person [HS "c"; HB false; HS ""; HS ""; HS ""; HNil]) ].
Example C12_example :
  let '(v', h') := copy_value ex_heap (HPtr 0) in
  (separated h' [v'] [HPtr 0] && negb (separated h' [HPtr 0] [HPtr 0]) && Nat.eqb (length h') 14
   && match hget h' 13 with Some (HMsg 1 fs) => hval_eqb (nth 17 fs HNil) HEmpty | _ => false end)%bool = true.
Proof. vm_compute. reflexivity. Qed.

Example C12_example_value :
  let '(v', h') := copy_value ex_heap (HPtr 0) in
  tree_of 6 h' v' = ntree_of 6 ex_heap (HPtr 0) /\ tree_of 6 h' v' <> tree_of 6 ex_heap (HPtr 0).
Proof. vm_compute. split; [reflexivity|discriminate]. Qed.
