(* Lock discipline of the package-level state of pkg/reader, pkg/writer, pkg/formats (C17).
   The access table (Gen/Locks.v) is extracted from the Go sources on every run.  Threads are the
   exported functions and methods; init functions run before any goroutine exists. *)
From Verif Require Import Model.Base Gen.Locks.
Open Scope list_scope.

Definition lockset := list (string * bool).            (* mutex, held exclusively? *)
Definition access := (string * Z * lockset)%type.       (* variable, kind, locks held *)

Definition a_var (a : access) : string := fst (fst a).
Definition a_kind (a : access) : Z := snd (fst a).
Definition a_locks (a : access) : lockset := snd a.

Definition is_write (a : access) : bool := Z.eqb (a_kind a) 1.
Definition is_atomic (a : access) : bool := Z.eqb (a_kind a) 2.
Definition is_escape (a : access) : bool := Z.eqb (a_kind a) 3.

(* both hold a common mutex and at least one of them holds it exclusively *)
Definition protected (a b : access) : bool :=
  existsb (fun la => existsb (fun lb => (String.eqb (fst la) (fst lb) && (snd la || snd lb))%bool) (a_locks b)) (a_locks a).

(* two accesses that may not be left unordered *)
Definition conflict (a b : access) : bool :=
  (String.eqb (a_var a) (a_var b)
   && (is_write a || is_write b)
   && negb (is_atomic a && is_atomic b)
   && negb (protected a b))%bool.

Definition thread_accesses (t : list (string * bool * list access)) : list access :=
  flat_map (fun row : (string * bool * list access)%type => if snd (fst row) then snd row else []) t.

(* the discipline: no package-level object is published into instances, and no two accesses by
   (possibly the same) thread programs conflict *)
Definition check_table (t : list (string * bool * list access)) : bool :=
  let accs := thread_accesses t in
  (forallb (fun a => negb (is_escape a)) accs
   && forallb (fun a => forallb (fun b => negb (conflict a b)) accs) accs)%bool.

(* ---- a registry as the code implements it: every operation one critical section over a map ---- *)
Definition registry := list (string * string).           (* format -> driver token *)
Inductive regop := RReg (f d : string) | RUnreg (f : string) | RGet (f : string).

Definition reg_step (r : registry) (o : regop) : registry * option string :=
  match o with
  | RReg f d => ((f, d) :: filter (fun kv => negb (String.eqb (fst kv) f)) r, None)
  | RUnreg f => (filter (fun kv => negb (String.eqb (fst kv) f)) r, None)
  | RGet f => (r, sassoc f r)
  end.

Fixpoint reg_run (r : registry) (os : list regop) : list (option string) :=
  match os with
  | [] => []
  | o :: rest => let '(r', x) := reg_step r o in x :: reg_run r' rest
  end.
